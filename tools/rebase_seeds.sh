#!/bin/bash
# rebase_seeds.sh: after a fix: commit in /repo, re-fit every seeded patch that no longer applies
# (patch --fuzz=3 in a scratch worktree) and re-verify it with verify_seed.sh.
cd /verif
mkdir -p /tmp/rebase
for d in seeded/*/; do
  n=$(basename $d)
  git -C /repo apply --check /verif/$d/patch.diff 2>/dev/null && continue
  WT=/tmp/rebase/wt-$n; rm -rf $WT /tmp/rebase/$n; git -C /repo worktree prune; git -C /repo worktree add -q --detach $WT HEAD
  ( cd $WT; if patch -p1 --fuzz=3 -s --no-backup-if-mismatch < /verif/seeded/$n/patch.diff >/tmp/rebase/$n.log 2>&1; then mkdir -p /tmp/rebase/$n; find . -name '*.orig' -delete; git diff > /tmp/rebase/$n/patch.diff; cp /verif/seeded/$n/demo_test.go /verif/seeded/$n/meta.json /tmp/rebase/$n/; else echo "$n PATCHFAIL"; head -5 /tmp/rebase/$n.log; fi )
  git -C /repo worktree remove --force $WT
  [ -d /tmp/rebase/$n ] && ./tools/verify_seed.sh /tmp/rebase/$n $n
done
rm -rf /tmp/rebase
