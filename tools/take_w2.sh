#!/bin/bash
# take_w2.sh <ID> : verify wave-2 seeds of property ID (from /tmp/wt/<ID>w2/_seed/m1,m2) as <ID>-m3,<ID>-m4 and run the property's check
ID=$1
cd /verif
mkdir -p /tmp/seedsrc/${ID}w2; cp -r /tmp/wt/${ID}w2/_seed/* /tmp/seedsrc/${ID}w2/ 2>/dev/null
./tools/verify_seed.sh /tmp/seedsrc/${ID}w2/m1 $ID-m3 && ./tools/run_seed.sh $ID-m3 | cut -c1-300
./tools/verify_seed.sh /tmp/seedsrc/${ID}w2/m2 $ID-m4 && ./tools/run_seed.sh $ID-m4 | cut -c1-300
git -C /repo worktree remove --force /tmp/wt/${ID}w2 2>/dev/null
