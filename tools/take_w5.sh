#!/bin/bash
# take_w5.sh <ID> : verify wave-5 seeds of property ID (from /tmp/wt/<ID>w5/_seed/m1,m2) as <ID>-m9,<ID>-m10 and run the property's check
ID=$1
cd /verif
mkdir -p /tmp/seedsrc/${ID}w5; cp -r /tmp/wt/${ID}w5/_seed/* /tmp/seedsrc/${ID}w5/ 2>/dev/null
./tools/verify_seed.sh /tmp/seedsrc/${ID}w5/m1 $ID-m9 && ./tools/run_seed.sh $ID-m9 | cut -c1-300
./tools/verify_seed.sh /tmp/seedsrc/${ID}w5/m2 $ID-m10 && ./tools/run_seed.sh $ID-m10 | cut -c1-300
git -C /repo worktree remove --force /tmp/wt/${ID}w5 2>/dev/null
