#!/bin/bash
# take_w4.sh <ID> : verify wave-4 seeds of property ID (from /tmp/wt/<ID>w4/_seed/m1,m2) as <ID>-m7,<ID>-m8 and run the property's check
ID=$1
cd /verif
mkdir -p /tmp/seedsrc/${ID}w4; cp -r /tmp/wt/${ID}w4/_seed/* /tmp/seedsrc/${ID}w4/ 2>/dev/null
./tools/verify_seed.sh /tmp/seedsrc/${ID}w4/m1 $ID-m7 && ./tools/run_seed.sh $ID-m7 | cut -c1-300
./tools/verify_seed.sh /tmp/seedsrc/${ID}w4/m2 $ID-m8 && ./tools/run_seed.sh $ID-m8 | cut -c1-300
git -C /repo worktree remove --force /tmp/wt/${ID}w4 2>/dev/null
