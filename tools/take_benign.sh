#!/bin/bash
# take_benign.sh <Bxx> : copies the two refactors of a benign-wave agent (from /tmp/wt/<Bxx>/_benign/r1,r2) to benign/ and runs
# every quick check against each (tools/run_benign.sh); any VIOLATION / exit 2 there is a false alarm of the machinery.
ID=$1
cd /verif
for r in r1 r2; do
  src=/tmp/wt/$ID/_benign/$r
  [ -f $src/patch.diff ] || { echo "$ID $r missing"; continue; }
  theme=$(python3 -c "import json,re;print(re.sub(r'[^a-z0-9]+','-',json.load(open('$src/meta.json')).get('theme','x').lower())[:40].strip('-'))" 2>/dev/null || echo x)
  name=W${ID#B}$r-$theme
  cp $src/patch.diff benign/$name.diff
  cp $src/meta.json benign/$name.meta.json
  ./tools/run_benign.sh benign/$name.diff 2>&1 | cut -c1-400
done
git -C /repo worktree remove --force /tmp/wt/$ID 2>/dev/null
