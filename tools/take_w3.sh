#!/bin/bash
# take_w3.sh <ID> : verify wave-3 seeds of property ID (from /tmp/wt/<ID>w3/_seed/m1,m2) as <ID>-m5,<ID>-m6 and run the property's check
ID=$1
cd /verif
mkdir -p /tmp/seedsrc/${ID}w3; cp -r /tmp/wt/${ID}w3/_seed/* /tmp/seedsrc/${ID}w3/ 2>/dev/null
./tools/verify_seed.sh /tmp/seedsrc/${ID}w3/m1 $ID-m5 && ./tools/run_seed.sh $ID-m5 | cut -c1-300
./tools/verify_seed.sh /tmp/seedsrc/${ID}w3/m2 $ID-m6 && ./tools/run_seed.sh $ID-m6 | cut -c1-300
git -C /repo worktree remove --force /tmp/wt/${ID}w3 2>/dev/null
