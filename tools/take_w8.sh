#!/bin/bash
# take_w8.sh <ID> : verify wave-8 seeds of property ID (from /tmp/wt/<ID>w8/_seed/m1,m2) as <ID>-m15,<ID>-m16 and run the property's check
ID=$1
cd /verif
mkdir -p /tmp/seedsrc/${ID}w8; cp -r /tmp/wt/${ID}w8/_seed/* /tmp/seedsrc/${ID}w8/ 2>/dev/null
./tools/verify_seed.sh /tmp/seedsrc/${ID}w8/m1 $ID-m15 && ./tools/run_seed.sh $ID-m15 | cut -c1-300
./tools/verify_seed.sh /tmp/seedsrc/${ID}w8/m2 $ID-m16 && ./tools/run_seed.sh $ID-m16 | cut -c1-300
git -C /repo worktree remove --force /tmp/wt/${ID}w8 2>/dev/null
