#!/bin/bash
# take_w7.sh <ID> : verify wave-7 seeds of property ID (from /tmp/wt/<ID>w7/_seed/m1,m2) as <ID>-m13,<ID>-m14 and run the property's check
ID=$1
cd /verif
mkdir -p /tmp/seedsrc/${ID}w7; cp -r /tmp/wt/${ID}w7/_seed/* /tmp/seedsrc/${ID}w7/ 2>/dev/null
./tools/verify_seed.sh /tmp/seedsrc/${ID}w7/m1 $ID-m13 && ./tools/run_seed.sh $ID-m13 | cut -c1-300
./tools/verify_seed.sh /tmp/seedsrc/${ID}w7/m2 $ID-m14 && ./tools/run_seed.sh $ID-m14 | cut -c1-300
git -C /repo worktree remove --force /tmp/wt/${ID}w7 2>/dev/null
