#!/bin/bash
# coverage.sh [tier] [ids...] : reach measurement. Builds the fed binary with -cover over the library packages, runs the
# given property checks (default: every fed property, quick tier) and prints, per library file, the statements no
# profile reached. Diagnostic only (not a registered check): used to find blind spots in workloads and fault mixes.
set -u
HERE="$(cd "$(dirname "$0")/.." && pwd)"
REPO="${VERIF_REPO:-/repo}"
export GOFLAGS=-mod=mod GOPROXY=off GOSUMDB=off GOTOOLCHAIN=local GOWORK=off
GO=/root/go/pkg/mod/golang.org/toolchain@v0.0.1-go1.24.0.linux-amd64/bin/go
TIER="${1:-quick}"; shift || true
B="$(mktemp -d /tmp/verif-cov.XXXXXX)"; trap 'rm -rf "$B"' EXIT
sed "s#=> /repo#=> $REPO#" "$HERE/sim/go.mod" > "$B/go.mod"; cp "$HERE/sim/go.sum" "$B/go.sum"
( cd "$HERE/sim" && "$GO" build -cover -coverpkg=github.com/russellhaering/gosaml2,github.com/russellhaering/gosaml2/types,github.com/russellhaering/gosaml2/uuid,verifsim/cmd/fed -modfile="$B/go.mod" -o "$B/fed" ./cmd/fed ) || exit 2
ids="${*:-$("$B/fed" list)}"
mkdir -p "$B/cd"
for id in $ids; do
  mkdir -p "$B/cd/$id"
  GOCOVERDIR="$B/cd/$id" VERIF_DIR="$HERE" "$B/fed" driver -prop "$id" -tier "$TIER" -no-evidence > "$B/$id.log" 2>&1
  echo "$id rc=$? $(grep -m1 'runs=' "$B/$id.log" | cut -c1-120)"
done
dirs=$(ls -d "$B"/cd/* | tr '\n' ',' | sed 's/,$//')
"$GO" tool covdata textfmt -i="$dirs" -o "${COVOUT:-/tmp/cov/merged.txt}"
python3 - "${COVOUT:-/tmp/cov/merged.txt}" <<'PY'
import sys,collections
cov=collections.defaultdict(int); 
for l in open(sys.argv[1]):
    if l.startswith('mode:') or l.startswith('verifsim/'): continue
    loc,n,c=l.rsplit(' ',2); cov[loc]=max(cov[loc],int(c))
byf=collections.defaultdict(list)
for loc,c in cov.items():
    f,r=loc.split(':'); byf[f].append((r,c))
tot=hit=0
for f in sorted(byf):
    t=len(byf[f]); h=sum(1 for r,c in byf[f] if c>0); tot+=t; hit+=h
    print(f"{f}: {h}/{t}")
    for r,c in sorted(byf[f], key=lambda x:[int(y) for y in x[0].replace(',', '.').split('.')]):
        if c==0: print("   UNREACHED", r)
print(f"TOTAL {hit}/{tot}")
PY
