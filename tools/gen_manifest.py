#!/usr/bin/env python3
"""Regenerates /verif/MANIFEST.json from the table below (kept valid at all times)."""
import json, os
HERE = os.path.dirname(os.path.dirname(os.path.abspath(__file__)))
props = [json.loads(l) for l in open(os.path.join(HERE, 'properties.jsonl'))]
ids = [p['id'] for p in props]

# id -> (category, technique, level text, level note, design_ref)
CLAIMED = {}
def claim(i, cat, tech, text, note, ref):
    CLAIMED[i] = (cat, tech, text, note, ref)

exec(open(os.path.join(HERE, 'tools', 'claims.py')).read())

NA_REASON = {}
try:
    exec(open(os.path.join(HERE, 'tools', 'not_applicable.py')).read())
except FileNotFoundError:
    pass

checks = []
for i in ids:
    if i not in CLAIMED:
        continue
    cat, tech, text, note, ref = CLAIMED[i]
    engine = 'conc' if i in ('C17', 'C18') else 'fed'
    checks.append({
        'property_id': i,
        'quick_cmd': './check %s quick' % i,
        'thorough_cmd': './check %s thorough' % i,
        'evidence_file': '/verif/evidence/%s.json' % i,
        'replay_cmd_template': './check --replay {path}',
        'engine': engine,
        'level_claimed': {'category': cat, 'text': text, 'design_ref': ref},
        'level_note': note,
        'technique': tech,
    })
na = [{'property_id': i, 'reason': NA_REASON.get(i, 'check not built yet in this session; the property is in scope of DESIGN.md section 4 and will be claimed once its check exists')} for i in ids if i not in CLAIMED]
m = {
    'version': 1,
    'setup_cmd': './check build',
    'hooks': {
        'guard': 'verif',
        'enable': 'no hook lives in /repo: the fed engine links the unmodified tree through a go.mod replace; the conc engine instruments a scratch copy of the tree at check time (go/ast yield insertion), see DESIGN.md 2.4',
        'baseline_off_cmd': './tools/baseline.sh',
        'source_commits': [],
        'add_only': True,
    },
    'engines': [
        {'name': 'fed', 'path': 'sim/', 'serves_properties': [c['property_id'] for c in checks if c['engine'] == 'fed'],
         'kind_free_text': 'deterministic simulated SAML federation (real SP, stub IdP/browser/router/adversary/transport/clock/entropy/stores), seeded choice tape, shrinker, replay files'},
        {'name': 'conc', 'path': 'conc/', 'serves_properties': [c['property_id'] for c in checks if c['engine'] == 'conc'],
         'kind_free_text': 'controlled-concurrency engine: go/ast-instrumented scratch copy, seeded cooperative scheduler over real goroutines, race detector kept live'},
    ],
    'checks': checks,
    'not_applicable': na,
    'notes': 'All checks: ./check <id> quick|thorough ; replay: ./check --replay <file> ; determinism self-test: ./check selftest. Known findings: known_findings.json.',
}
json.dump(m, open(os.path.join(HERE, 'MANIFEST.json'), 'w'), indent=1)
print('claimed', len(checks), 'not_applicable', len(na))
