#!/bin/bash
# take_w6.sh <ID> : verify wave-6 seeds of property ID (from /tmp/wt/<ID>w6/_seed/m1,m2) as <ID>-m11,<ID>-m12 and run the property's check
ID=$1
cd /verif
mkdir -p /tmp/seedsrc/${ID}w6; cp -r /tmp/wt/${ID}w6/_seed/* /tmp/seedsrc/${ID}w6/ 2>/dev/null
./tools/verify_seed.sh /tmp/seedsrc/${ID}w6/m1 $ID-m11 && ./tools/run_seed.sh $ID-m11 | cut -c1-300
./tools/verify_seed.sh /tmp/seedsrc/${ID}w6/m2 $ID-m12 && ./tools/run_seed.sh $ID-m12 | cut -c1-300
git -C /repo worktree remove --force /tmp/wt/${ID}w6 2>/dev/null
