#!/bin/bash
# run_benign.sh [patch...] : applies each behaviour-preserving refactor of benign/ to a scratch worktree, confirms the
# baseline, and runs every quick check against it; any VIOLATION here is a false alarm of the machinery.
cd "$(dirname "$0")/.."
patches="$*"; [ -z "$patches" ] && patches=$(ls benign/*.diff)
rc=0
for p in $patches; do
  n=$(basename $p .diff); WT=/tmp/bn/$n
  mkdir -p /tmp/bn; rm -rf $WT; git -C /repo worktree prune
  git -C /repo worktree add -q --detach $WT HEAD || exit 2
  ( cd $WT && git apply /verif/$p ) || { echo "$n does-not-apply"; git -C /repo worktree remove --force $WT; continue; }
  VERIF_REPO=$WT ./tools/baseline.sh > /tmp/bn/$n.baseline 2>&1 || echo "$n BASELINE-CHANGED $(grep MISSING /tmp/bn/$n.baseline | head -2)"
  ids="C01 C02 C03 C04 C05 C06 C07 C08 C09 C10 C11 C12 C13 C14 C15 C16 C17 C18 C19 C20"
  if [ -n "$BENIGN_ROUTE" ]; then
    # route by the files a refactor touches: inbound code cannot reach the outbound checks and vice versa
    # (saml.go, go.mod and anything unknown: every check)
    files=$(grep '^+++ b/' /verif/$p | sed 's#^+++ b/##')
    inb=0; outb=0
    for f in $files; do
      case "$f" in
        decode_response.go|decode_logout_request.go|validate.go|retrieve_assertion.go|attribute.go|types/response.go|types/encrypted_assertion.go|types/encrypted_key.go|xml_constants.go) inb=1 ;;
        build_request.go|build_logout_response.go|logout_request.go|types/metadata.go|uuid/*|authn_request.go) outb=1 ;;
        *) inb=1; outb=1 ;;
      esac
    done
    ids=""
    [ $inb = 1 ] && ids="$ids C01 C02 C03 C04 C05 C06 C07 C08 C09 C10 C11 C12 C20"
    [ $outb = 1 ] && ids="$ids C13 C14 C15 C16 C18 C19"
    ids="$ids C17"
  fi
  for id in $ids; do
    out=$(VERIF_REPO=$WT ./check $id quick -no-evidence ${BENIGN_RUNS:+-runs $BENIGN_RUNS} 2>&1); r=$?   # BENIGN_RUNS=n: all directed cases, n random runs
    if [ $r -ne 0 ]; then rc=1; echo "$n $id FALSE-ALARM rc=$r: $(echo "$out" | grep -E 'signature|HARNESS|BUILD' | head -3 | tr '\n' ' ' | cut -c1-300)"; fi
  done
  echo "$n done ($ids)"
  git -C /repo worktree remove --force $WT
done
exit $rc
