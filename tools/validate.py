#!/opt/veriftools/pyvenv/bin/python
import json, sys, glob, jsonschema
ok = True
try:
    jsonschema.validate(json.load(open('/verif/MANIFEST.json')), json.load(open('/root/.vp/MANIFEST.schema.json')))
    print('MANIFEST valid')
except Exception as e:
    ok = False; print('MANIFEST INVALID', e)
es = json.load(open('/root/.vp/EVIDENCE.schema.json'))
for f in sorted(glob.glob('/verif/evidence/*.json')):
    try:
        jsonschema.validate(json.load(open(f)), es)
    except Exception as e:
        ok = False; print('EVIDENCE INVALID', f, str(e)[:300])
print('evidence files checked:', len(glob.glob('/verif/evidence/*.json')))
sys.exit(0 if ok else 1)
