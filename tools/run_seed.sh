#!/bin/bash
# run_seed.sh <seeded-name> [prop ...] : applies seeded/<name>/patch.diff to a scratch worktree of /repo HEAD and runs
# the given property checks (default: the property in meta.json) against it via VERIF_REPO. Prints DETECTED/MISSED.
NAME="$1"; shift
TIER="${TIER:-quick}"
WT=/tmp/rs/$NAME
mkdir -p /tmp/rs; rm -rf "$WT"; git -C /repo worktree prune
git -C /repo worktree add -q --detach "$WT" HEAD || exit 2
trap 'git -C /repo worktree remove --force "$WT" 2>/dev/null' EXIT
( cd "$WT" && git apply /verif/seeded/$NAME/patch.diff ) || { echo "$NAME patch-does-not-apply"; exit 2; }
props="$*"
[ -z "$props" ] && props=$(python3 -c "import json;print(json.load(open('/verif/seeded/$NAME/meta.json'))['property'])")
for p in $props; do
  out=$(VERIF_REPO="$WT" VERIF_DIR_OVERRIDE=1 /verif/check "$p" "$TIER" -no-evidence 2>&1)
  rc=$?
  if [ $rc -eq 1 ]; then echo "$NAME $p DETECTED: $(echo "$out" | grep -m2 'signature:' | tr '\n' ' ')";
  elif [ $rc -eq 0 ]; then echo "$NAME $p MISSED ($(echo "$out" | grep -m1 'runs='))";
  else echo "$NAME $p HARNESS rc=$rc: $(echo "$out" | tail -3 | tr '\n' ' ')"; fi
done
