#!/bin/bash
# verify_seed.sh <src_dir containing patch.diff demo_test.go meta.json> <name>
# Confirms in a scratch worktree of /repo HEAD: patch applies, baseline unchanged, demo passes without / fails with.
# On success stores /verif/seeded/<name>/{patch.diff,demo_test.go,meta.json}; prints one summary line.
export GOFLAGS=-mod=mod GOPROXY=off GOSUMDB=off GOTOOLCHAIN=local GOWORK=off
GO=/root/go/pkg/mod/golang.org/toolchain@v0.0.1-go1.24.0.linux-amd64/bin/go
SRC="$1"; NAME="$2"
WT=/tmp/vs/$NAME
rm -rf "$WT"; git -C /repo worktree prune
mkdir -p /tmp/vs
git -C /repo worktree add -q --detach "$WT" HEAD || { echo "$NAME FAIL worktree"; exit 1; }
cleanup() { git -C /repo worktree remove --force "$WT" 2>/dev/null; }
trap cleanup EXIT
cd "$WT"
place=$(python3 -c "
import json,sys,re
m=json.load(open('$SRC/meta.json'))
p=m.get('demo_placement','')
mm=re.search(r'([\w/.]*seed_demo_test\.go|[\w/.]*_test\.go)',p)
print(mm.group(1) if mm else 'seed_demo_test.go')")
place="${place#/tmp/wt/*/}"
case "$place" in /*) place="seed_demo_test.go";; esac
pkgdir="$(dirname "$place")"
runpat='TestSeedDemo'
racefl=""
grep -q -- "-race" "$SRC/meta.json" && racefl="-race"
# demo without patch
cp "$SRC/demo_test.go" "$place"
if ! "$GO" test $racefl -count=1 -run "$runpat" "./$pkgdir" > /tmp/vs/$NAME.nopatch.log 2>&1; then echo "$NAME FAIL demo-fails-without-patch"; exit 1; fi
rm -f "$place"
# patch
if ! git apply "$SRC/patch.diff" 2>/dev/null; then
  if ! git apply -3 "$SRC/patch.diff" 2>/tmp/vs/$NAME.apply.log; then echo "$NAME FAIL patch-does-not-apply"; exit 1; fi
  git reset -q
fi
git add -A . >/dev/null 2>&1; git diff --cached > /tmp/vs/$NAME.patch.diff; git reset -q   # (--cached after add: new files are part of the change)
if ! "$GO" build ./... > /tmp/vs/$NAME.build.log 2>&1; then echo "$NAME FAIL build"; exit 1; fi
if ! VERIF_REPO="$WT" /verif/tools/baseline.sh > /tmp/vs/$NAME.baseline.log 2>&1; then echo "$NAME FAIL baseline-changed: $(grep MISSING /tmp/vs/$NAME.baseline.log | head -3 | tr '\n' ' ')"; exit 1; fi
cp "$SRC/demo_test.go" "$place"
if "$GO" test $racefl -count=1 -run "$runpat" "./$pkgdir" > /tmp/vs/$NAME.patch.log 2>&1; then echo "$NAME FAIL demo-passes-with-patch"; exit 1; fi
rm -f "$place"
mkdir -p /verif/seeded/$NAME
cp /tmp/vs/$NAME.patch.diff /verif/seeded/$NAME/patch.diff
cp "$SRC/demo_test.go" /verif/seeded/$NAME/demo_test.go
python3 - "$SRC/meta.json" /verif/seeded/$NAME/meta.json "$place" "$racefl" <<'PY'
import json,sys
m=json.load(open(sys.argv[1]))
m['verified_by_main']={'applies_to':'/repo HEAD at verification time','baseline':'117/117 stable tests pass with patch (tools/baseline.sh)','demo_without_patch':'pass','demo_with_patch':'fail','demo_placement_used':sys.argv[3],'flags':sys.argv[4]}
json.dump(m,open(sys.argv[2],'w'),indent=1)
PY
echo "$NAME OK"
