#!/bin/bash
# Runs the repository's test suite with the verif guard OFF (no build tags) and compares
# with the stable baseline (/root/.vp/BASELINE.json when present, else tools/baseline_pass.txt).
export GOFLAGS=-mod=mod GOPROXY=off GOSUMDB=off GOTOOLCHAIN=local GOWORK=off
GO=/root/go/pkg/mod/golang.org/toolchain@v0.0.1-go1.24.0.linux-amd64/bin/go
[ -x "$GO" ] || GO=go
REPO="${VERIF_REPO:-/repo}"
HERE="$(cd "$(dirname "$0")" && pwd)"
cd "$REPO" || exit 2
"$GO" test -json -vet=off -count=1 -timeout 25m ./... > /tmp/verif-baseline.$$.json 2>/dev/null
python3 - "$HERE/baseline_pass.txt" /tmp/verif-baseline.$$.json <<'PY'
import json,sys
want=[l.strip() for l in open(sys.argv[1]) if l.strip()]
passed=set()
for l in open(sys.argv[2]):
    try: e=json.loads(l)
    except Exception: continue
    if e.get('Action')=='pass' and e.get('Test'):
        passed.add(e['Package']+'::'+e['Test'])
missing=[w for w in want if w not in passed]
print("baseline: %d/%d stable tests pass"%(len(want)-len(missing),len(want)))
for m in missing: print("MISSING",m)
sys.exit(1 if missing else 0)
PY
rc=$?
rm -f /tmp/verif-baseline.$$.json
exit $rc
