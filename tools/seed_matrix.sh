#!/bin/bash
# seed_matrix.sh [names...] : runs every seeded change (default: all) against the check of its own property
# (and any extra properties listed in seeded/<name>/also.txt); prints one line per (change, property).
cd "$(dirname "$0")/.."
names="$*"
[ -z "$names" ] && names=$(ls seeded)
for n in $names; do
  props=$(python3 -c "import json;print(json.load(open('seeded/$n/meta.json'))['property'])")
  [ -f seeded/$n/also.txt ] && props="$props $(cat seeded/$n/also.txt)"
  ./tools/run_seed.sh $n $props 2>&1 | cut -c1-220
done
