claim('C05', 'fault_enumeration',
      'deterministic simulation: seeded federation runs with clock/delay fault enumeration at every bound',
      'Every run is a simulated IdP->transport->SP delivery whose delay places the SP node clock (skew, zone) at a chosen bound +/- {1s,1ns,0}; the directed prefix enumerates bound kind x offset x assertion position x count x RFC3339 rendering x signature placement plus missing/malformed bounds, followed by seeded exploration; the oracle is the half-open interval model on instants. Sampling beyond the enumerated axes is evidence, not proof.',
      'trusted: the stub IdP signer (self-consistent with goxmldsig verification), Go time parsing for the reference instants; certificate windows kept decades wide',
      'DESIGN.md 4 C05')
claim('C08', 'exploration',
      'deterministic simulation: seeded federation runs, liveness after faults stop, equality with the IdP logical message',
      'A stub IdP renders a logical message through a drawn layout (prefix style, pretty-printing, quoting, comments, CDATA, character references, attribute order), signs it itself (placement, digest, signature and canonicalisation methods, KeyInfo), optionally encrypts and compresses it; after optional earlier faults (garbage delivery, SP restart, key roll-over) the delivery inside all windows must be accepted and Response, AssertionInfo and the Values accessors must equal the logical message. Seeded sampling plus a directed prefix over placement x count x encryption x layout; a clean batch is evidence, not proof.',
      'trusted: the stub renderer/signer/encryptor (each emitted signature is self-checked with goxmldsig directly; a failing self-check is a harness error); signed assertions that travel encrypted use exclusive c14n without prefix list',
      'DESIGN.md 4 C08')
claim('C03', 'exploration',
      'deterministic simulation: seeded federation runs with a non-conforming IdP node, misrouting and delay faults; reference profile model',
      'A genuinely signing but non-conforming IdP is wrong in exactly one of 23 respects at a drawn assertion position (assertions plain or encrypted; the exported Validate is also called directly on an application-decoded message); the transport may misroute a response minted for another SP or delay it past expiry; every accept is checked against a reference profile model evaluated on the returned structure at the SP node clock, every single fault must yield the typed error naming the element. Directed prefix over fault x position x count x placement x issuer-configured, then seeded exploration.',
      'trusted: stub IdP signer; error identity compared by Go type and SAML name only',
      'DESIGN.md 4 C03')
claim('C06', 'exploration',
      'deterministic simulation: seeded federation workload with reference model and transport-perturbation invariance (thin fit)',
      'Assertions scoped to this SP, another SP or near-miss audiences (0-3 restrictions x 0-3 audiences), OneTimeUse and ProxyRestriction are issued by the stub IdP, delivered with the SP clock inside or outside the Conditions window and with benign transport perturbations (duplicate, recompress, delay); the warnings must equal a three-line reference model at every delivery. No fault or schedule is essential to this property; the simulator contributes workload, model and invariance.',
      'trusted: stub IdP; audience comparison is byte-exact as the property states',
      'DESIGN.md 4 C06')
claim('C02', 'fault_enumeration',
      'deterministic simulation: seeded federation histories with store roll-over/retirement/replacement events, store I/O faults and clock placement enumerated on certificate bounds',
      'Each run is a 1-3 step history of one SP whose trust store changes at simulated events; at every step a trusted member, an untrusted key, a trusted certificate paired with a foreign key, tampered signed content or a same-key twin certificate signs one of the four inbound kinds (KeyInfo present or absent), and the transport places the SP clock inside the certificate window or on NotBefore/NotAfter +/- {0,1ns,1s}; a store error can fire on the k-th call. Oracle: reference rule for honoured signatures (DER identity, inclusive window at the SP clock, single-member rule without KeyInfo) and the never-downgrade invariant (bad root signature around good assertion signatures is an error).',
      'trusted: stub IdP signer and certificate minting (stub CA; the library never checks chains)',
      'DESIGN.md 4 C02')
claim('C01', 'exploration',
      'deterministic simulation: byzantine transport over a history of genuine messages; conservation oracle over the IdP issue log',
      'A trusted IdP, an untrusted IdP and an attacker share the simulated network; the adversary builds every delivered message from the history of genuine messages with 28 operators (XSW wrap catalogue, splice, strip, re-sign, trusted-certificate-foreign-key, evil sibling, nesting, duplicate, shadow attribute, comment/CDATA, namespace tricks, relocate/swap signatures, attacker-encrypt, replay after roll-over), raw or DEFLATE. At every accept each returned assertion must equal, field for field, an issue-log unit signed by a store member valid at the SP clock, sit directly under the Response, and the summary must come from the first such assertion. Directed prefix enumerates operator x victim placement x parameters; the rest is seeded search.',
      'trusted: stub IdP issue log and normaliser; universality over all byte strings is sampled, not proved',
      'DESIGN.md 4 C01')
claim('C04', 'exploration',
      'deterministic simulation: the adversarial SSO runs of C01 and logout runs of C10 evaluated with the flag oracle',
      'Every true SignatureValidated / ResponseSignatureValidated must correspond to an issue-log unit of exactly that element kind honoured at the SP clock with equal fields; all indicators false with checking off; with checking on and the Response flag false every returned assertion is individually validated; the summary flag mirrors the Response flag. Same fault space as C01 and C10 plus skip-signature configurations.',
      'trusted: stub IdP issue log',
      'DESIGN.md 4 C04')
claim('C10', 'exploration',
      'deterministic simulation: both logout flows with non-conforming IdP, byzantine transport and kind confusion; logout reference model and flag oracle',
      'LogoutRequest and LogoutResponse are minted conforming or wrong in one respect, unsigned or signed by a trusted / untrusted key, tampered, wrapped (new or same ID), with relocated or foreign signatures, delivered raw or DEFLATE, to the right or the wrong endpoint, with checking on or off and issuer configured or not. Accept implies the logout model; a single fault yields the typed error naming it; the flag is false with checking off and otherwise true only for an honoured root signature whose fields equal the issue-log unit; a bad root signature is never downgraded.',
      'trusted: stub IdP; error identity by Go type and SAML name',
      'DESIGN.md 4 C10')
claim('C07', 'fault_enumeration',
      'deterministic simulation: attacker-encrypted plaintexts in flight, SP clock enumerated on the SP certificate bounds, faulty key stores',
      'Genuine encrypted responses and attacker-encrypted plaintexts (forged, attacker-signed, cut from a signed Response, non-assertion, garbage) are delivered directly, beside a genuine assertion or nested, with the recipient certificate absent / the SP\'s / foreign, to an SP keyed by field / TLS field / setter / both whose clock is placed on its own certificate\'s NotBefore/NotAfter +/- {0,1ns,1s} with ValidateEncryptionCert on and off, and whose key store may hand out an empty or unparsable certificate or fail. Oracle: conservation over the issue log; nested or foreign-recipient => error; option on => accepted only inside the window with a parsable certificate; option off => as the plaintext twin.',
      'trusted: stub IdP signer/encryptor',
      'DESIGN.md 4 C07')
claim('C09', 'fault_enumeration',
      'deterministic simulation: in-flight corruption enumerated over message offsets and a hostile ciphertext grid, into every decoding entry point',
      'Genuine messages of every kind are truncated, bit-flipped, shortened or extended at enumerated offsets of the XML, base64 and DEFLATE bytes and delivered to all six inbound entry points under normal, bare (empty store, no keys, nil clock), failing-store, skip and key-less SP configurations; every ciphertext length 0..80 per algorithm identifier, every CBC last-byte value, all-zero blocks, wrapped keys of every length and wrong sizes, bad base64 and missing parts are fed to DecryptBytes / Decrypt / DecryptSymmetricKey directly and through an unsigned Response; deep and wide documents. Oracle: normal return, exactly one of result/error for pointer results; a recovered panic or a worker crash (journal) is the violation.',
      'thorough tier enumerates every offset; quick samples a stride; universality over all byte strings is sampled',
      'DESIGN.md 4 C09')
claim('C11', 'fault_enumeration',
      'deterministic simulation (thin fit): two-party encrypt->decrypt round trip enumerated over the algorithm grid, plaintext lengths and SP key configuration history',
      'The IdP stub encrypts to the SP certificate under every data algorithm x key transport x digest x EncryptedKey placement x recipient certificate x SP key configuration (field, TLS field, setter, both; fresh or after restart); per cell DecryptBytes must return the exact bytes for plaintext lengths 0..33 (all residues mod 16, zero-byte tails) plus large ones, Decrypt must unmarshal, and the encrypted Response must give the same outcome, data and flags as its plaintext twin. What decides is enumeration against byte equality; the simulator contributes the second party and the configuration history.',
      'trusted: stub encryptor written from crypto/*',
      'DESIGN.md 4 C11')
claim('C12', 'fault_enumeration',
      'deterministic simulation: hostile DEFLATE streams with limit-boundary enumeration and allocation accounting; raw/compressed metamorphic relation',
      'Expansion sizes limit-1 / limit / limit+1 are enumerated for limits {unset, 1, 64, 4096, 1 MiB} on all six inbound entry points with the padding inside the root and after the root end tag (so a silently truncating reader would still see a well-formed document); bombs up to 64 MiB (quick) / 1 GiB (thorough) nominal expansion, also as the plaintext of an attacker-encrypted assertion, must be rejected while the bytes allocated during the call (runtime.MemStats) stay under 8 x limit + 4 x input + 4 MiB; genuine, non-conforming and corrupted messages must behave identically raw and compressed at any level.',
      'allocation bound is a heap-bytes proxy for "never materialises more than about the limit"; measured in single-goroutine workers',
      'DESIGN.md 4 C12')
claim('C20', 'exploration',
      'deterministic simulation (thin fit): multi-IdP router scenario, pre-decode vs validation agreement on every accept',
      'Two IdPs and one SP configuration per IdP sit behind a router stub that calls the real DecodeUnverified* first; SSO Responses and LogoutResponses are issued in every layout of C08 and, where the envelope is not signed or checking is off, shaped by 27 envelope operators (duplicated / shadowed root attributes, several / nested / foreign-namespace Issuers, comments, CDATA, character references, encrypted non-assertion children), and on signed envelopes too by the operators exclusive canonicalisation cannot see (declarations of unused prefixes spelled like attributes, a second top-level element), raw or DEFLATE, up to megabytes. Whenever validation under any configuration accepts, the pre-decode must have succeeded with equal ID, InResponseTo, Destination, Version and Issuer and the routed-to configuration must be the accepting one. No fault or schedule is essential; the simulator contributes the multi-party routing scenario and the workload.',
      'envelope shaping is only applied where an attacker could apply it (unsigned envelope, checking off, or content a signature under exclusive canonicalisation does not cover); a colluding IdP signing shadowed attributes is outside the run space',
      'DESIGN.md 4 C20')
claim('C13', 'exploration',
      'deterministic simulation: SP->IdP leg with a strict recipient (conforming XML front end, goxmldsig verification, independent placement/algorithm/certificate checks) over key-configuration histories',
      'The IdP stub trusts only what the SP publishes (GetSigningCertBytes / Metadata), receives signed AuthnRequests, LogoutRequests and LogoutResponses built under every key configuration (encryption / signing key by none, field, TLS field, setter, both, both-with-different-field-key; RSA or ECDSA), every supported signature algorithm and canonicaliser or the defaults, with configuration strings from the hostile pool, on first use, with a cached signing context and after an SP restart; it applies XML attribute-value normalisation before parsing, verifies the enveloped signature and checks Reference target, declared methods, embedded certificate, position right after Issuer and that the reported certificate is the configured signing (else encryption) key.',
      'trusted: goxmldsig verification as the recipient verifier; concurrent first use is exercised by the C17 engine',
      'DESIGN.md 4 C13')
claim('C14', 'exploration',
      'deterministic simulation (thin fit): SP->browser->IdP redirect leg; the recipient recomputes the signed octets from the raw URL',
      'Redirect builders (AuthnRequest redirect signed or not, LogoutRequest redirect, POST-flavoured URL builders, AuthRedirect Location header) are driven with hostile relay states, documents with hostile strings, endpoints with existing query parameters and every key configuration / algorithm; the IdP stub splits the raw query itself, checks endpoint and surviving parameters, inflates SAMLRequest to exactly the document, RelayState presence and value, SigAlg, and verifies the signature with crypto/rsa or crypto/ecdsa over SAMLRequest=..[&RelayState=..]&SigAlg=.. built from the percent-encoded octets as they appear. No fault or schedule is essential; the simulator contributes the second party.',
      'trusted: Go crypto for raw verification',
      'DESIGN.md 4 C14')
claim('C15', 'exploration',
      'deterministic simulation: SP->IdP leg with simulated clock (instants, skew, zones) and a conforming recipient comparing against an expected document',
      'All three produced kinds, signed or not, are received through the conforming XML front end and compared with an expected element skeleton (names, namespaces, exact attribute sets, schema order) and exact values built from the configuration, the call arguments and the SP node clock (year end, leap day, sub-second instants, non-UTC locations, skew); every string comes from the hostile pool in half of the runs, so a value that alters structure or is not recovered exactly is reported.',
      'values restricted to XML characters',
      'DESIGN.md 4 C15')
claim('C16', 'exploration',
      'deterministic simulation (thin fit): SP->browser(HTML5 parser)->IdP POST leg over sequences of form productions',
      'Sequences of 1-4 POST form productions over the four builders (kinds and relay-state presence vary inside one process, exposing state shared between calls) with hostile relay states and documents are parsed with golang.org/x/net/html: DOM skeleton equal to the benign page of the same build, one POST form whose action is the flow endpoint as URL, message field decoding to exactly the document, RelayState present iff given and equal modulo HTML newline normalisation; the submitted document is re-verified at the IdP. Violations that depend on earlier runs of the same process are replayed with their minimised process history.',
      'trusted: x/net/html as the HTML5 parser',
      'DESIGN.md 4 C16')
claim('C19', 'exploration',
      'deterministic simulation: the IdP bootstraps trust only from published metadata and then uses it in protocol runs; clock-driven validity arithmetic',
      'Metadata() and MetadataWithSLO(h) for h in {0,1,5,24,168,10^6,-1,-1000} are consumed as struct and through XML (marshal, conforming parse, unmarshal) under every key configuration, option combination, hostile URL/issuer strings and SP clock (skew, location, sub-second): entity ID, endpoints, bindings, flags and validUntil = clock UTC + 7 days or + h hours are checked, then the published signing certificate must verify the next signed message and an assertion encrypted to the published encryption certificate under every listed method must be accepted.',
      'an encryption key is always configured (documented as required)',
      'DESIGN.md 4 C19')
claim('C17', 'exploration',
      'deterministic simulation of goroutine schedules: go/ast-instrumented scratch copy, seeded cooperative scheduler over real goroutines, race detector kept live, solo-equivalence oracle',
      'At check time the current tree is copied and instrumented (a yield before every statement, lock acquisitions spun through the scheduler); 2-6 tasks of 1-4 public operations run on one shared fresh SP (so first signers race on the lazy signing context), sometimes with a second instance, under seeded strategies (sequential baseline, random walk, PCT-style priorities, fine round-robin, long runs). The baton hand-off runs with race-detector synchronisation events disabled, so unsynchronised accesses between tasks are still reported. Oracles: race log did not grow; every result equals the solo re-execution of its task on an identical fresh SP (per-task entropy, frozen clock); configuration snapshot and arguments unchanged; results scribbled over after return never affect later results; no deadlock. Race-freedom is shown for the executed schedules only.',
      'trusted: Go race detector; blocking primitives other than Mutex/RWMutex inside the library are not modelled (watchdog => exit 2)',
      'DESIGN.md 2.4, 4 C17')
claim('C18', 'fault_enumeration',
      'deterministic simulation with the entropy seam: accounting crypto/rand.Reader, seeded schedules, enumeration of the masked entropy bytes, short-read faults',
      'crypto/rand.Reader is replaced by an accounting per-task reader, so the simulator knows every byte the library was served: every ID built under seeded schedules (2-6 tasks, shared and separate instances), in sequential histories of 20-200 constructions and under 1-3-byte short reads must be a legal canonical v4 xs:ID equal to the rendering of a contiguous, not yet used 16-byte window of the served bytes with only the version / variant bits forced (conservation of entropy: no reuse, nothing from elsewhere); all 65,536 values of the two masked bytes are enumerated (quick: a quarter); with the OS reader 10^5 / 10^6 IDs across kinds, instances and goroutines are pairwise distinct.',
      'unpredictability is provenance only (every free bit comes unchanged from crypto/rand.Reader); OS generator quality assumed; entropy errors not injectable since Go 1.24',
      'DESIGN.md 4 C18')
