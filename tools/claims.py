claim('C05', 'fault_enumeration',
      'deterministic simulation: seeded federation runs with clock/delay fault enumeration at every bound',
      'Every run is a simulated IdP->transport->SP delivery whose delay places the SP node clock (skew, zone) at a chosen bound +/- {1s,1ns,0}; the directed prefix enumerates bound kind x offset x assertion position x count x RFC3339 rendering x signature placement plus missing/malformed bounds, followed by seeded exploration; the oracle is the half-open interval model on instants. Sampling beyond the enumerated axes is evidence, not proof.',
      'trusted: the stub IdP signer (self-consistent with goxmldsig verification), Go time parsing for the reference instants; certificate windows kept decades wide',
      'DESIGN.md 4 C05')
