claim('C05', 'fault_enumeration',
      'deterministic simulation: seeded federation runs with clock/delay fault enumeration at every bound',
      'Every run is a simulated IdP->transport->SP delivery whose delay places the SP node clock (skew, zone) at a chosen bound +/- {1s,1ns,0}; the directed prefix enumerates bound kind x offset x assertion position x count x RFC3339 rendering x signature placement plus missing/malformed bounds, followed by seeded exploration; the oracle is the half-open interval model on instants. Sampling beyond the enumerated axes is evidence, not proof.',
      'trusted: the stub IdP signer (self-consistent with goxmldsig verification), Go time parsing for the reference instants; certificate windows kept decades wide',
      'DESIGN.md 4 C05')
claim('C08', 'exploration',
      'deterministic simulation: seeded federation runs, liveness after faults stop, equality with the IdP logical message',
      'A stub IdP renders a logical message through a drawn layout (prefix style, pretty-printing, quoting, comments, CDATA, character references, attribute order), signs it itself (placement, digest, signature and canonicalisation methods, KeyInfo), optionally encrypts and compresses it; after optional earlier faults (garbage delivery, SP restart, key roll-over) the delivery inside all windows must be accepted and Response, AssertionInfo and the Values accessors must equal the logical message. Seeded sampling plus a directed prefix over placement x count x encryption x layout; a clean batch is evidence, not proof.',
      'trusted: the stub renderer/signer/encryptor (each emitted signature is self-checked with goxmldsig directly; a failing self-check is a harness error); signed assertions that travel encrypted use exclusive c14n without prefix list',
      'DESIGN.md 4 C08')
claim('C03', 'exploration',
      'deterministic simulation: seeded federation runs with a non-conforming IdP node, misrouting and delay faults; reference profile model',
      'A genuinely signing but non-conforming IdP is wrong in exactly one of 22 respects at a drawn assertion position; the transport may misroute a response minted for another SP or delay it past expiry; every accept is checked against a reference profile model evaluated on the returned structure at the SP node clock, every single fault must yield the typed error naming the element. Directed prefix over fault x position x count x placement x issuer-configured, then seeded exploration.',
      'trusted: stub IdP signer; error identity compared by Go type and SAML name only',
      'DESIGN.md 4 C03')
claim('C06', 'exploration',
      'deterministic simulation: seeded federation workload with reference model and transport-perturbation invariance (thin fit)',
      'Assertions scoped to this SP, another SP or near-miss audiences (0-3 restrictions x 0-3 audiences), OneTimeUse and ProxyRestriction are issued by the stub IdP, delivered with the SP clock inside or outside the Conditions window and with benign transport perturbations (duplicate, recompress, delay); the warnings must equal a three-line reference model at every delivery. No fault or schedule is essential to this property; the simulator contributes workload, model and invariance.',
      'trusted: stub IdP; audience comparison is byte-exact as the property states',
      'DESIGN.md 4 C06')
claim('C02', 'fault_enumeration',
      'deterministic simulation: seeded federation histories with store roll-over/retirement/replacement events, store I/O faults and clock placement enumerated on certificate bounds',
      'Each run is a 1-3 step history of one SP whose trust store changes at simulated events; at every step a trusted member, an untrusted key, a trusted certificate paired with a foreign key, tampered signed content or a same-key twin certificate signs one of the four inbound kinds (KeyInfo present or absent), and the transport places the SP clock inside the certificate window or on NotBefore/NotAfter +/- {0,1ns,1s}; a store error can fire on the k-th call. Oracle: reference rule for honoured signatures (DER identity, inclusive window at the SP clock, single-member rule without KeyInfo) and the never-downgrade invariant (bad root signature around good assertion signatures is an error).',
      'trusted: stub IdP signer and certificate minting (stub CA; the library never checks chains)',
      'DESIGN.md 4 C02')
