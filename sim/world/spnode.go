package world

import (
	"crypto/tls"
	"errors"
	"fmt"
	"runtime/debug"
	"strings"
	"time"

	saml2 "github.com/russellhaering/gosaml2"
	"github.com/russellhaering/gosaml2/types"
	dsig "github.com/russellhaering/goxmldsig"
)

// KeyStyle says how one of the SP's keys is configured.
type KeyStyle int

const (
	KeyNone          KeyStyle = iota
	KeyField                  // deprecated exported field (own X509KeyStore implementation)
	KeySetter                 // SetSPKeyStore / SetSPSigningKeyStore
	KeyBoth                   // field and setter, same key
	KeyTLS                    // field holding a dsig.TLSCertKeyStore
	KeyBothDiffer             // setter holds the key; the deprecated field holds another one (setter wins)
	KeyBothDifferTLS          // as KeyBothDiffer, the field being a dsig.TLSCertKeyStore
)

func (k KeyStyle) String() string {
	return [...]string{"none", "field", "setter", "both", "tls", "both-differ", "both-differ-tls"}[k]
}

// SPConfig is the drawn configuration of one service provider node. Build turns it into
// a fresh *saml2.SAMLServiceProvider ("sp_restart" = Build again: nothing may depend on
// accumulated in-memory state).
type SPConfig struct {
	Name string

	IdPSSOURL, IdPSLOURL, IdPIssuer string
	IdPSSOBinding, IdPSLOBinding    string
	ACS, SLO, SPIssuer, Audience    string

	SignRequests bool
	SigAlg       string
	Canon        dsig.Canonicalizer
	CanonName    string

	ForceAuthn, IsPassive bool
	ReqCtx                *saml2.RequestedAuthnContext
	NameIDFormat          string

	ValidateEncCert bool
	SkipSig         bool
	AllowMissing    bool
	MaxBody         int64

	EncStyle   KeyStyle
	EncKeyIdx  int
	EncCert    *Cert
	EncLeaf    *Cert    // TLS key store style: tls.Certificate.Leaf (a parsed-certificate cache) set to this certificate
	EncCertRaw []byte   // when non-nil: the key store hands out these bytes instead (empty / unparsable certificate faults)
	EncKeyErr  error    // when non-nil: the field key store fails
	EncTLSMode int      // KeyTLS only: 1 = tls.Certificate with a private key but an empty chain, 2 = nil chain, 3 = zero value, 4 = chain holding one empty certificate
	SigStyle   KeyStyle // KeyNone = no separate signing key
	SigKeyIdx  int
	SigCert    *Cert
	SigCertRaw []byte // when non-nil: the signing key store hands out these bytes as certificate (e.g. none at all)
	// SharedKeyStores: the *saml2.KeyStore objects handed to the setters are created once per
	// configuration and handed to every instance built from it (and from copies of it): an
	// application that keeps one key-store object for several service providers
	SharedKeyStores *SharedKS
	// SignerFault: keys handed to the setters are wrapped in signers that fail while Ctl.Fail is set
	SignerFault *FaultCtl
	// RejectedSetters: after configuration the application attempts a key rotation whose private key failed
	// to load - SetSPKeyStore (bit 1) and/or SetSPSigningKeyStore (bit 2) are called with a KeyStore that
	// carries another certificate and no Signer. The library refuses such a call; a refused call changes nothing.
	RejectedSetters int

	// Live: re-use (and re-configure in place) the process-wide long-lived SP instead of building a
	// fresh one. Only for profiles that never sign (the signing context is lazily cached by design).
	Live bool
	// Reuse: re-configure this instance in place instead of building a fresh one (run-local history).
	Reuse              *saml2.SAMLServiceProvider
	ReuseUsedEncSetter bool
	ReuseUsedSigSetter bool

	Store      *SimCertStore
	PlainStore bool // use a stateless dsig.MemoryX509CertificateStore with Store's certificates (concurrency engine)
	NilStore   bool
	NilClock   bool

	Skew time.Duration
	Loc  *time.Location
}

// SharedKS holds the key-store objects several SP instances are given.
type SharedKS struct{ Enc, Sig *saml2.KeyStore }

// liveSP is the long-lived service provider of this process (see SPConfig.Live).
var liveSP *saml2.SAMLServiceProvider

type SPNode struct {
	Cfg   *SPConfig
	SP    *saml2.SAMLServiceProvider
	Clock *SimClock
	now   func() time.Time
}

// NewSPNode builds the real service provider for cfg; simNow gives simulated UTC time.
func NewSPNode(cfg *SPConfig, simNow func() time.Time) (*SPNode, error) {
	n := &SPNode{Cfg: cfg}
	n.now = func() time.Time {
		t := simNow().Add(cfg.Skew)
		if cfg.Loc != nil {
			t = t.In(cfg.Loc)
		}
		return t
	}
	n.Clock = &SimClock{NowFn: n.now}
	var sp *saml2.SAMLServiceProvider
	if cfg.Reuse != nil {
		// a run-local history: this very instance served under another configuration before
		sp = cfg.Reuse
		sp.SPKeyStore, sp.SPSigningKeyStore = nil, nil
		// the setters are only called again where the earlier configuration used them (an
		// application that never used a setter does not call it to "clear" anything)
		if cfg.ReuseUsedEncSetter {
			sp.SetSPKeyStore(nil)
		}
		if cfg.ReuseUsedSigSetter {
			sp.SetSPSigningKeyStore(nil)
		}
		sp.IDPCertificateStore = nil
		sp.Clock = nil
	} else if cfg.Live && liveSP != nil {
		// the long-lived instance of this process is re-configured in place (fields reassigned,
		// setters called again): nothing the library remembers from earlier use may survive that
		sp = liveSP
		sp.SPKeyStore, sp.SPSigningKeyStore = nil, nil
		sp.SetSPKeyStore(nil)
		sp.SetSPSigningKeyStore(nil)
		sp.IDPCertificateStore = nil
		sp.Clock = nil
	} else {
		sp = &saml2.SAMLServiceProvider{}
		if cfg.Live {
			liveSP = sp
		}
	}
	sp.IdentityProviderSSOURL = cfg.IdPSSOURL
	sp.IdentityProviderSLOURL = cfg.IdPSLOURL
	sp.IdentityProviderIssuer = cfg.IdPIssuer
	sp.IdentityProviderSSOBinding = cfg.IdPSSOBinding
	sp.IdentityProviderSLOBinding = cfg.IdPSLOBinding
	sp.AssertionConsumerServiceURL = cfg.ACS
	sp.ServiceProviderSLOURL = cfg.SLO
	sp.ServiceProviderIssuer = cfg.SPIssuer
	sp.AudienceURI = cfg.Audience
	sp.SignAuthnRequests = cfg.SignRequests
	sp.SignAuthnRequestsAlgorithm = cfg.SigAlg
	sp.SignAuthnRequestsCanonicalizer = cfg.Canon
	sp.ForceAuthn = cfg.ForceAuthn
	sp.IsPassive = cfg.IsPassive
	sp.RequestedAuthnContext = cfg.ReqCtx
	sp.NameIdFormat = cfg.NameIDFormat
	sp.ValidateEncryptionCert = cfg.ValidateEncCert
	sp.SkipSignatureValidation = cfg.SkipSig
	sp.AllowMissingAttributes = cfg.AllowMissing
	sp.MaximumDecompressedBodySize = cfg.MaxBody
	if !cfg.NilClock {
		sp.Clock = n.Clock.Dsig()
	}
	if !cfg.NilStore {
		if cfg.Store == nil {
			cfg.Store = &SimCertStore{}
		}
		sp.IDPCertificateStore = cfg.Store
		if cfg.PlainStore {
			ms := &dsig.MemoryX509CertificateStore{}
			for _, c := range cfg.Store.Certs {
				ms.Roots = append(ms.Roots, c.X509)
			}
			sp.IDPCertificateStore = ms
		}
	}
	sharedKS, signerFault = cfg.SharedKeyStores, cfg.SignerFault
	defer func() { sharedKS, signerFault = nil, nil }()
	if err := applyKeyRaw(sp, cfg.EncStyle, cfg.EncKeyIdx, cfg.EncCert, false, cfg.EncCertRaw, cfg.EncKeyErr); err != nil {
		return nil, err
	}
	if cfg.EncLeaf != nil && cfg.EncStyle == KeyTLS {
		if ks, ok := sp.SPKeyStore.(dsig.TLSCertKeyStore); ok {
			tc := tls.Certificate(ks)
			tc.Leaf = cfg.EncLeaf.X509
			sp.SPKeyStore = dsig.TLSCertKeyStore(tc)
		}
	}
	if cfg.EncTLSMode != 0 && cfg.EncStyle == KeyTLS {
		switch cfg.EncTLSMode {
		case 1:
			sp.SPKeyStore = dsig.TLSCertKeyStore(tls.Certificate{Certificate: [][]byte{}, PrivateKey: Key(cfg.EncKeyIdx).Signer})
		case 2:
			sp.SPKeyStore = dsig.TLSCertKeyStore(tls.Certificate{PrivateKey: Key(cfg.EncKeyIdx).Signer})
		case 3:
			sp.SPKeyStore = dsig.TLSCertKeyStore(tls.Certificate{})
		default:
			sp.SPKeyStore = dsig.TLSCertKeyStore(tls.Certificate{Certificate: [][]byte{{}}, PrivateKey: Key(cfg.EncKeyIdx).Signer})
		}
	}
	if err := applyKeyRaw(sp, cfg.SigStyle, cfg.SigKeyIdx, cfg.SigCert, true, cfg.SigCertRaw, nil); err != nil {
		return nil, err
	}
	if cfg.RejectedSetters != 0 {
		stray := MintCert(5, time.Date(2000, 1, 1, 0, 0, 0, 0, time.UTC), time.Date(2100, 1, 1, 0, 0, 0, 0, time.UTC), 77)
		if cfg.RejectedSetters&1 != 0 {
			sp.SetSPKeyStore(&saml2.KeyStore{Cert: stray.DER})
		}
		if cfg.RejectedSetters&2 != 0 {
			sp.SetSPSigningKeyStore(&saml2.KeyStore{Cert: stray.DER})
		}
	}
	n.SP = sp
	return n, nil
}

// sharedKS is set for the duration of one NewSPNode call (single-goroutine construction).
var sharedKS *SharedKS
var signerFault *FaultCtl

func applyKey(sp *saml2.SAMLServiceProvider, st KeyStyle, keyIdx int, cert *Cert, signing bool) error {
	return applyKeyRaw(sp, st, keyIdx, cert, signing, nil, nil)
}

func applyKeyRaw(sp *saml2.SAMLServiceProvider, st KeyStyle, keyIdx int, cert *Cert, signing bool, raw []byte, kerr error) error {
	if st == KeyNone {
		return nil
	}
	k := Key(keyIdx)
	var der []byte
	if cert != nil {
		der = cert.DER
	}
	if raw != nil {
		der = raw
	}
	field := func() error {
		var ks dsig.X509KeyStore
		if st == KeyTLS {
			ks = dsig.TLSCertKeyStore(tls.Certificate{Certificate: [][]byte{der}, PrivateKey: k.Signer})
		} else {
			if k.RSA == nil {
				return fmt.Errorf("field key store needs an RSA key")
			}
			ks = &FieldKeyStore{Key: k.RSA, Cert: der, Err: kerr}
		}
		if signing {
			sp.SPSigningKeyStore = ks
		} else {
			sp.SPKeyStore = ks
		}
		return nil
	}
	setter := func() error {
		ks := &saml2.KeyStore{Signer: k.Signer, Cert: der}
		if signerFault != nil {
			ks.Signer = &FaultySigner{Signer: k.Signer, Ctl: signerFault}
		}
		if sh := sharedKS; sh != nil {
			slot := &sh.Enc
			if signing {
				slot = &sh.Sig
			}
			if *slot == nil {
				*slot = ks
			}
			ks = *slot
		}
		if signing {
			return sp.SetSPSigningKeyStore(ks)
		}
		return sp.SetSPKeyStore(ks)
	}
	switch st {
	case KeyField, KeyTLS:
		return field()
	case KeySetter:
		return setter()
	case KeyBoth:
		if err := field(); err != nil {
			return err
		}
		return setter()
	case KeyBothDiffer, KeyBothDifferTLS:
		other := Key((keyIdx + 1) % NumRSA2048)
		oc := MintCert(other.Idx, cert.X509.NotBefore, cert.X509.NotAfter, 9)
		var ks dsig.X509KeyStore = &FieldKeyStore{Key: other.RSA, Cert: oc.DER}
		if st == KeyBothDifferTLS {
			ks = dsig.TLSCertKeyStore(tls.Certificate{Certificate: [][]byte{oc.DER}, PrivateKey: other.Signer})
		}
		if signing {
			sp.SPSigningKeyStore = ks
		} else {
			sp.SPKeyStore = ks
		}
		return setter()
	}
	return nil
}

func (n *SPNode) Now() time.Time { return n.now() }

// Outcome of one call into the SP.
type Outcome struct {
	Err      error
	Panic    string
	PanicTop string // innermost library frame of a recovered panic
}

func (o Outcome) OK() bool { return o.Err == nil && o.Panic == "" }

func (o Outcome) Class() string {
	switch {
	case o.Panic != "":
		return "panic"
	case o.Err != nil:
		return "reject"
	}
	return "accept"
}

// Guard runs f, converting a panic into an outcome.
func Guard(f func() error) (out Outcome) {
	defer func() {
		if r := recover(); r != nil {
			out.Panic = fmt.Sprint(r)
			out.PanicTop = libFrame(string(debug.Stack()))
		}
	}()
	out.Err = f()
	if out.Err != nil {
		// rendering the error belongs to the call: an Error method that panics is a panic of the entry point
		_ = out.Err.Error()
	}
	return
}

func libFrame(stack string) string {
	for _, ln := range strings.Split(stack, "\n") {
		if strings.HasPrefix(ln, "github.com/russellhaering/gosaml2") {
			if i := strings.LastIndex(ln, "("); i > 0 {
				ln = ln[:i]
			}
			return strings.TrimPrefix(ln, "github.com/russellhaering/gosaml2")
		}
	}
	return "?"
}

// ErrNilResult stands for "the entry point returned a nil result together with a nil error": callers
// of the wrappers below never have to dereference such a result; profiles report it by this value.
var ErrNilResult = errors.New("entry point returned a nil result and a nil error")

func (n *SPNode) ValidateResponse(enc string) (resp *types.Response, out Outcome) {
	out = Guard(func() error {
		var err error
		resp, err = n.SP.ValidateEncodedResponse(enc)
		if err == nil && resp == nil {
			return ErrNilResult
		}
		return err
	})
	return
}

func (n *SPNode) Retrieve(enc string) (ai *saml2.AssertionInfo, out Outcome) {
	out = Guard(func() error {
		var err error
		ai, err = n.SP.RetrieveAssertionInfo(enc)
		if err == nil && ai == nil {
			return ErrNilResult
		}
		return err
	})
	return
}

func (n *SPNode) LogoutRequest(enc string) (lr *saml2.LogoutRequest, out Outcome) {
	out = Guard(func() error {
		var err error
		lr, err = n.SP.ValidateEncodedLogoutRequestPOST(enc)
		if err == nil && lr == nil {
			return ErrNilResult
		}
		return err
	})
	return
}

func (n *SPNode) LogoutResponse(enc string) (lr *types.LogoutResponse, out Outcome) {
	out = Guard(func() error {
		var err error
		lr, err = n.SP.ValidateEncodedLogoutResponsePOST(enc)
		if err == nil && lr == nil {
			return ErrNilResult
		}
		return err
	})
	return
}

// ErrClass classifies an error for metamorphic comparisons: typed profile errors by type
// and named element, anything else by coarse stage. Never compares message strings of
// untyped errors beyond stable prefixes owned by this harness.
func ErrClass(err error) string {
	if err == nil {
		return "ok"
	}
	var ev saml2.ErrVerification
	if errors.As(err, &ev) && ev.Cause != nil {
		return "verification(" + ErrClass(ev.Cause) + ")"
	}
	var em saml2.ErrMissingElement
	var ei saml2.ErrInvalidValue
	var ep saml2.ErrParsing
	switch {
	case errors.As(err, &em):
		return "missing(" + em.Tag + "," + em.Attribute + ")"
	case errors.As(err, &ei):
		return "invalid(" + ei.Key + "," + ei.Reason + ")"
	case errors.As(err, &ep):
		return "parsing(" + ep.Tag + ")"
	}
	if errors.Is(err, dsig.ErrMissingSignature) {
		return "missing-signature"
	}
	return "other"
}
