package world

import (
	"encoding/json"
	"reflect"
	"time"

	"github.com/russellhaering/gosaml2/types"
)

// ---- logical messages: the ground truth every oracle compares against -------------

type LAttr struct {
	Name, FriendlyName, NameFormat string
	Values                         []string
	Typed                          bool // render xsi:type on values (layout only)
}

type LAuthn struct {
	SessionIndex        string
	AuthnInstant        *string // rendered instants (nil = attribute absent)
	SessionNotOnOrAfter *string
	ClassRef            *string
}

type LProxy struct {
	Count     int
	CountLit  string // when set: the literal written for Count (leading zeros, sign, values beyond 64 bits)
	Audiences []string
}

type LAssertion struct {
	ID           string
	Version      string
	IssueInstant string
	Issuer       *string

	HasSubject     bool
	NameID         *string
	HasSubjConf    bool
	Method         string
	HasSCD         bool
	Recipient      *string
	SCNotOnOrAfter *string
	SCInResponseTo string

	HasConditions        bool
	NotBefore            *string
	NotOnOrAfter         *string
	AudienceRestrictions [][]string
	OneTimeUse           bool
	Proxy                *LProxy

	HasAttrStmt bool
	Attrs       []LAttr
	Authn       *LAuthn

	Sign    *SigOpts // own enveloped signature
	Encrypt *EncOpts // delivered as EncryptedAssertion

	// ExtraAttrs: further attributes the producer writes on the genuine element of that local name
	// (SubjectConfirmationData, Conditions, ProxyRestriction, AuthnStatement), e.g. xml:NotOnOrAfter
	ExtraAttrs map[string][][2]string

	// Twins: a non-conforming producer writes, right after a genuine element, an element of the same
	// local name in a namespace that is not SAML's (extension content in the wrong place).
	Twins []LTwin

	// ForeignIssuer: a non-conforming producer writes, where the Issuer belongs (after it when there is
	// one), an element called Issuer in a namespace that is not SAML's.
	ForeignIssuer *string
}

// LTwin is a foreign-namespace element named like the SAML element Of, with its own attributes and text.
type LTwin struct {
	Of    string // SubjectConfirmationData | Conditions | NameID | AuthnStatement | Subject
	Attrs [][2]string
	Text  string
}

type LResponse struct {
	Kind          string // "Response" | "LogoutResponse" | "LogoutRequest"
	ID            string
	InResponseTo  string
	Destination   *string
	Version       string
	IssueInstant  string
	Issuer        *string
	HasStatus     bool
	HasStatusCode bool
	StatusCode    string
	SubStatusCode *string // second-level StatusCode nested inside the first
	Assertions    []*LAssertion
	NameID        *string // LogoutRequest
	SessionIndex  *string // LogoutRequest
	Sign          *SigOpts
	ForeignIssuer *string // see LAssertion.ForeignIssuer
}

// ---- normalised view of what the library returned ----------------------------------

type NSCD struct{ NotOnOrAfter, Recipient, InResponseTo string }
type NSubjConf struct {
	Method string
	SCD    *NSCD
}
type NSubject struct {
	NameID *string
	SC     *NSubjConf
}
type NProxy struct {
	Count     int
	Audiences []string
}
type NConditions struct {
	NotBefore, NotOnOrAfter string
	AudienceRestrictions    [][]string
	OneTimeUse              bool
	Proxy                   *NProxy
}
type NAttr struct {
	Name, FriendlyName, NameFormat string
	Values                         []string
}
type NAuthn struct {
	SessionIndex        string
	AuthnInstant        *int64
	SessionNotOnOrAfter *int64
	ClassRef            *string
}
type NAssertion struct {
	Version, ID  string
	IssueInstant int64
	Issuer       *string
	Subject      *NSubject
	Conditions   *NConditions
	HasAttrStmt  bool
	Attrs        []NAttr
	Authn        *NAuthn
}
type NResponse struct {
	ID, InResponseTo, Destination, Version string
	IssueInstant                           int64
	Issuer                                 *string
	StatusCode                             *string
	HasStatus                              bool
	Assertions                             []NAssertion
}

func sp(s string) *string { return &s }

func NormAssertion(a *types.Assertion) NAssertion {
	n := NAssertion{Version: a.Version, ID: a.ID, IssueInstant: a.IssueInstant.UnixNano()}
	if a.Issuer != nil {
		n.Issuer = sp(a.Issuer.Value)
	}
	if a.Subject != nil {
		s := &NSubject{}
		if a.Subject.NameID != nil {
			s.NameID = sp(a.Subject.NameID.Value)
		}
		if sc := a.Subject.SubjectConfirmation; sc != nil {
			s.SC = &NSubjConf{Method: sc.Method}
			if d := sc.SubjectConfirmationData; d != nil {
				s.SC.SCD = &NSCD{d.NotOnOrAfter, d.Recipient, d.InResponseTo}
			}
		}
		n.Subject = s
	}
	if c := a.Conditions; c != nil {
		nc := &NConditions{NotBefore: c.NotBefore, NotOnOrAfter: c.NotOnOrAfter, OneTimeUse: c.OneTimeUse != nil}
		for _, ar := range c.AudienceRestrictions {
			auds := []string{}
			for _, x := range ar.Audiences {
				auds = append(auds, x.Value)
			}
			nc.AudienceRestrictions = append(nc.AudienceRestrictions, auds)
		}
		if p := c.ProxyRestriction; p != nil {
			np := &NProxy{Count: int(p.Count)} // (conversion: stays compilable if the field type changes)
			for _, x := range p.Audience {
				np.Audiences = append(np.Audiences, x.Value)
			}
			nc.Proxy = np
		}
		n.Conditions = nc
	}
	if as := a.AttributeStatement; as != nil {
		n.HasAttrStmt = true
		for _, at := range as.Attributes {
			na := NAttr{Name: at.Name, FriendlyName: at.FriendlyName, NameFormat: at.NameFormat}
			for _, v := range at.Values {
				na.Values = append(na.Values, v.Value)
			}
			n.Attrs = append(n.Attrs, na)
		}
	}
	if au := a.AuthnStatement; au != nil {
		na := &NAuthn{SessionIndex: au.SessionIndex}
		if au.AuthnInstant != nil {
			v := au.AuthnInstant.UnixNano()
			na.AuthnInstant = &v
		}
		if au.SessionNotOnOrAfter != nil {
			v := au.SessionNotOnOrAfter.UnixNano()
			na.SessionNotOnOrAfter = &v
		}
		if au.AuthnContext != nil && au.AuthnContext.AuthnContextClassRef != nil {
			na.ClassRef = sp(au.AuthnContext.AuthnContextClassRef.Value)
		}
		n.Authn = na
	}
	return n
}

func NormResponse(r *types.Response) NResponse {
	n := NResponse{ID: r.ID, InResponseTo: r.InResponseTo, Destination: r.Destination, Version: r.Version,
		IssueInstant: r.IssueInstant.UnixNano()}
	if r.Issuer != nil {
		n.Issuer = sp(r.Issuer.Value)
	}
	if r.Status != nil {
		n.HasStatus = true
		if r.Status.StatusCode != nil {
			n.StatusCode = sp(r.Status.StatusCode.Value)
		}
	}
	for i := range r.Assertions {
		n.Assertions = append(n.Assertions, NormAssertion(&r.Assertions[i]))
	}
	return n
}

func mustInstant(s string) int64 {
	t, err := time.Parse(time.RFC3339, s)
	if err != nil {
		return time.Time{}.UnixNano()
	}
	return t.UnixNano()
}

func deref(p *string) string {
	if p == nil {
		return ""
	}
	return *p
}

// ExpectAssertion is what a faithful decoder must return for a logical assertion.
func ExpectAssertion(a *LAssertion) NAssertion {
	n := NAssertion{Version: a.Version, ID: a.ID, IssueInstant: mustInstant(a.IssueInstant)}
	if a.Issuer != nil {
		n.Issuer = sp(*a.Issuer)
	}
	if a.HasSubject {
		s := &NSubject{}
		if a.NameID != nil {
			s.NameID = sp(*a.NameID)
		}
		if a.HasSubjConf {
			s.SC = &NSubjConf{Method: a.Method}
			if a.HasSCD {
				s.SC.SCD = &NSCD{deref(a.SCNotOnOrAfter), deref(a.Recipient), a.SCInResponseTo}
			}
		}
		n.Subject = s
	}
	if a.HasConditions {
		nc := &NConditions{NotBefore: deref(a.NotBefore), NotOnOrAfter: deref(a.NotOnOrAfter), OneTimeUse: a.OneTimeUse}
		for _, ar := range a.AudienceRestrictions {
			nc.AudienceRestrictions = append(nc.AudienceRestrictions, append([]string{}, ar...))
		}
		if a.Proxy != nil {
			nc.Proxy = &NProxy{Count: a.Proxy.Count, Audiences: append([]string(nil), a.Proxy.Audiences...)}
		}
		n.Conditions = nc
	}
	if a.HasAttrStmt {
		n.HasAttrStmt = true
		for _, at := range a.Attrs {
			n.Attrs = append(n.Attrs, NAttr{Name: at.Name, FriendlyName: at.FriendlyName, NameFormat: at.NameFormat,
				Values: append([]string(nil), at.Values...)})
		}
	}
	if a.Authn != nil {
		na := &NAuthn{SessionIndex: a.Authn.SessionIndex}
		if a.Authn.AuthnInstant != nil {
			v := mustInstant(*a.Authn.AuthnInstant)
			na.AuthnInstant = &v
		}
		if a.Authn.SessionNotOnOrAfter != nil {
			v := mustInstant(*a.Authn.SessionNotOnOrAfter)
			na.SessionNotOnOrAfter = &v
		}
		if a.Authn.ClassRef != nil {
			na.ClassRef = sp(*a.Authn.ClassRef)
		}
		n.Authn = na
	}
	return n
}

func ExpectResponse(r *LResponse) NResponse {
	n := NResponse{ID: r.ID, InResponseTo: r.InResponseTo, Destination: deref(r.Destination), Version: r.Version,
		IssueInstant: mustInstant(r.IssueInstant)}
	if r.Issuer != nil {
		n.Issuer = sp(*r.Issuer)
	}
	if r.HasStatus {
		n.HasStatus = true
		if r.HasStatusCode {
			n.StatusCode = sp(r.StatusCode)
		}
	}
	for _, a := range r.Assertions {
		n.Assertions = append(n.Assertions, ExpectAssertion(a))
	}
	return n
}

// Canon fixes nil-vs-empty differences before comparison.
func canonA(a *NAssertion) {
	if len(a.Attrs) == 0 {
		a.Attrs = nil
	}
	for i := range a.Attrs {
		if len(a.Attrs[i].Values) == 0 {
			a.Attrs[i].Values = nil
		}
	}
	if a.Conditions != nil {
		if len(a.Conditions.AudienceRestrictions) == 0 {
			a.Conditions.AudienceRestrictions = nil
		}
		for i := range a.Conditions.AudienceRestrictions {
			if len(a.Conditions.AudienceRestrictions[i]) == 0 {
				a.Conditions.AudienceRestrictions[i] = nil
			}
		}
		if a.Conditions.Proxy != nil && len(a.Conditions.Proxy.Audiences) == 0 {
			a.Conditions.Proxy.Audiences = nil
		}
	}
}

func EqualAssertion(x, y NAssertion) bool {
	canonA(&x)
	canonA(&y)
	return reflect.DeepEqual(x, y)
}

func EqualResponse(x, y NResponse) bool {
	if len(x.Assertions) != len(y.Assertions) {
		return false
	}
	for i := range x.Assertions {
		if !EqualAssertion(x.Assertions[i], y.Assertions[i]) {
			return false
		}
	}
	x.Assertions, y.Assertions = nil, nil
	return reflect.DeepEqual(x, y)
}

func J(v any) string {
	b, err := json.Marshal(v)
	if err != nil {
		return "<" + err.Error() + ">"
	}
	return string(b)
}
