package world

import (
	"fmt"
	"strings"
	"time"

	saml2 "github.com/russellhaering/gosaml2"
	"github.com/russellhaering/gosaml2/types"
	dsig "github.com/russellhaering/goxmldsig"

	"verifsim/core"
)

// NLogout is the normalised view of a logout message (request or response).
type NLogout struct {
	ID, InResponseTo, Destination, Version string
	IssueInstant                           int64
	Issuer                                 *string
	NameID                                 *string
	HasStatus                              bool
	StatusCode                             *string
}

func NormLogoutRequest(r *saml2.LogoutRequest) NLogout {
	n := NLogout{ID: r.ID, Destination: r.Destination, Version: r.Version, IssueInstant: r.IssueInstant.UnixNano()}
	if r.Issuer != nil {
		n.Issuer = sp(r.Issuer.Value)
	}
	if r.NameID != nil {
		n.NameID = sp(r.NameID.Value)
	}
	return n
}

func NormLogoutResponse(r *types.LogoutResponse) NLogout {
	n := NLogout{ID: r.ID, InResponseTo: r.InResponseTo, Destination: r.Destination, Version: r.Version, IssueInstant: r.IssueInstant.UnixNano()}
	if r.Issuer != nil {
		n.Issuer = sp(r.Issuer.Value)
	}
	if r.Status != nil {
		n.HasStatus = true
		if r.Status.StatusCode != nil {
			n.StatusCode = sp(r.Status.StatusCode.Value)
		}
	}
	return n
}

func ExpectLogout(m *LResponse) NLogout {
	n := NLogout{ID: m.ID, Destination: deref(m.Destination), Version: m.Version, IssueInstant: mustInstant(m.IssueInstant)}
	if m.Issuer != nil {
		n.Issuer = sp(*m.Issuer)
	}
	if m.Kind == "LogoutRequest" {
		if m.NameID != nil {
			n.NameID = sp(*m.NameID)
		}
	} else {
		n.InResponseTo = m.InResponseTo
		if m.HasStatus {
			n.HasStatus = true
			if m.HasStatusCode {
				n.StatusCode = sp(m.StatusCode)
			}
		}
	}
	return n
}

// IssuedUnit is one entry of the IdP's issue log: a signed element, who signed it, and
// its logical content.
type IssuedUnit struct {
	Kind   string // Response | Assertion | LogoutRequest | LogoutResponse
	ID     string
	KeyIdx int
	Cert   *Cert
	Resp   *NResponse
	Assn   *NAssertion
	Logout *NLogout
	At     time.Duration
	Msg    int // index of the issued message
}

type IssuedMsg struct {
	Logical *LResponse
	Layout  Layout
	XML     string
	At      time.Duration
}

type IdP struct {
	Name   string
	Log    []IssuedUnit
	Msgs   []IssuedMsg
	NextID int
}

func (idp *IdP) NewID(prefix string) string {
	idp.NextID++
	return fmt.Sprintf("_%s%s%d", prefix, idp.Name, idp.NextID)
}

// Issue renders, signs and encrypts a logical message and appends every signed unit to
// the issue log.
func (idp *IdP) Issue(m *LResponse, l Layout, at time.Duration) (string, error) {
	// encrypted assertions are produced as standalone documents first
	encXML := map[string]string{}
	for _, a := range m.Assertions {
		if a.Encrypt == nil {
			continue
		}
		pt := RenderAssertion(a, l)
		if a.Encrypt.InheritNS && a.Sign == nil && (l.PStyle == 0) {
			pt = RenderAssertionInherited(a, l)
		}
		if a.Sign != nil {
			var err error
			pt, err = SignSlot(pt, a.ID, a.Sign)
			if err != nil {
				return "", fmt.Errorf("sign encrypted assertion: %w", err)
			}
		}
		pt = StripSlots(pt)
		x, err := EncryptAssertion(a.Encrypt, []byte(pt))
		if err != nil {
			return "", err
		}
		if a.Encrypt.EnvelopeNSFromRoot && l.PStyle == 0 {
			x = strings.Replace(x, `<saml:EncryptedAssertion xmlns:saml="`+NSAssertion+`">`, `<saml:EncryptedAssertion>`, 1)
		}
		encXML[a.ID] = x
	}
	text := RenderMessage(m, l)
	for _, a := range m.Assertions {
		if a.Encrypt == nil && a.Sign != nil {
			var err error
			text, err = SignSlot(text, a.ID, a.Sign)
			if err != nil {
				return "", fmt.Errorf("sign assertion: %w", err)
			}
		}
	}
	for id, x := range encXML {
		text = strings.Replace(text, EncSlot(id), x, 1)
	}
	if m.Sign != nil {
		var err error
		text, err = SignSlot(text, m.ID, m.Sign)
		if err != nil {
			return "", fmt.Errorf("sign message: %w", err)
		}
	}
	text = StripSlots(text)
	mi := len(idp.Msgs)
	idp.Msgs = append(idp.Msgs, IssuedMsg{Logical: m, Layout: l, XML: text, At: at})
	if m.Sign != nil {
		u := IssuedUnit{Kind: m.Kind, ID: m.ID, KeyIdx: m.Sign.KeyIdx, Cert: m.Sign.Cert, At: at, Msg: mi}
		if m.Kind == "Response" {
			r := ExpectResponse(m)
			u.Resp = &r
		} else {
			lg := ExpectLogout(m)
			u.Logout = &lg
		}
		idp.Log = append(idp.Log, u)
	}
	for _, a := range m.Assertions {
		if a.Sign != nil {
			na := ExpectAssertion(a)
			idp.Log = append(idp.Log, IssuedUnit{Kind: "Assertion", ID: a.ID, KeyIdx: a.Sign.KeyIdx, Cert: a.Sign.Cert, Assn: &na, At: at, Msg: mi})
		}
	}
	return text, nil
}

// ---- value pools ---------------------------------------------------------------------

// HostilePool: strings over the XML character repertoire biased to markup characters,
// whitespace (leading/trailing/inner) and non-ASCII. Index 0 is the plainest.
var HostilePool = []string{
	"alice",
	"a b",
	" lead",
	"trail ",
	"  two  spaces  ",
	"a&b",
	"<b>x</b>",
	"\"quoted\" 'single'",
	"x > y && y < z",
	"]]>",
	"<![CDATA[x]]>",
	"<!-- c -->",
	"&amp;&lt;&#x41;",
	"é漢字😀",
	"tab\there",
	"line\nfeed",
	"cr\rhere",
	"crlf\r\nhere",
	" nbsp ls",
	"user@example.com",
	"CN=a,O=b+c=d",
	"https://sp.example/acs?x=1&y=2",
	"a:b:c",
	"%41%42+c",
	"ünïcödé � \U0001F600",
	"",
}

// DrawValue picks a pool value, sometimes concatenating two and sometimes a long one.
func DrawValue(t *core.Tape, label string) string {
	v := HostilePool[t.Int(len(HostilePool), label)]
	if t.Chance(150, label+".cat") {
		v += HostilePool[t.Int(len(HostilePool), label+".2")]
	}
	if t.Chance(30, label+".long") {
		v = strings.Repeat(v+"x", 50)
	}
	return v
}

// DrawNonEmpty is DrawValue that never returns "".
func DrawNonEmpty(t *core.Tape, label string) string {
	v := DrawValue(t, label)
	if v == "" {
		return "v"
	}
	return v
}

// ---- conforming workload ---------------------------------------------------------------

// Fed is the static part of a federation world shared by generators.
type Fed struct {
	IdPIssuer string
	ACS       string
	SLO       string
	SPIssuer  string
	Audience  string
}

var DefaultFed = Fed{
	IdPIssuer: "https://idp.example/meta",
	ACS:       "https://sp.example/acs",
	SLO:       "https://sp.example/slo",
	SPIssuer:  "https://sp.example/meta",
	Audience:  "https://sp.example/meta",
}

// GenAssertion draws a conforming assertion valid around now.
func GenAssertion(t *core.Tape, idp *IdP, fed Fed, now time.Time, rich bool) *LAssertion {
	f := DrawInstantForm(t)
	a := &LAssertion{ID: idp.NewID("a"), Version: "2.0"}
	a.IssueInstant = RenderInstant(TruncTo(now, f), f)
	a.Issuer = sp(fed.IdPIssuer)
	a.HasSubject = true
	if rich {
		a.NameID = sp(DrawNonEmpty(t, "a.nameid"))
	} else {
		a.NameID = sp("alice")
	}
	a.HasSubjConf, a.Method, a.HasSCD = true, Bearer, true
	a.Recipient = sp(fed.ACS)
	life := time.Duration(60+t.Int(600, "a.life")) * time.Second
	a.SCNotOnOrAfter = sp(RenderInstant(TruncTo(now.Add(life), f), f))
	if t.Bool("a.scirt") {
		a.SCInResponseTo = "_req" + fmt.Sprint(t.Int(100, "a.scirt.v"))
	}
	a.HasConditions = true
	a.NotBefore = sp(RenderInstant(TruncTo(now.Add(-time.Duration(1+t.Int(300, "a.nb"))*time.Second), f), f))
	a.NotOnOrAfter = sp(RenderInstant(TruncTo(now.Add(life), f), f))
	if t.Bool("a.aud") {
		a.AudienceRestrictions = [][]string{{fed.Audience}}
	}
	a.HasAttrStmt = true
	nattr := 1
	if rich {
		nattr = t.Int(5, "a.nattr")
	}
	for i := 0; i < nattr; i++ {
		at := LAttr{Name: fmt.Sprintf("attr%d", i)}
		if rich {
			if t.Chance(300, "a.attr.name") {
				at.Name = DrawNonEmpty(t, "a.attr.name.v") + fmt.Sprint(i) // names stay distinct
			}
			if t.Bool("a.attr.fn") {
				at.FriendlyName = DrawValue(t, "a.attr.fn.v")
			}
			if t.Bool("a.attr.nf") {
				at.NameFormat = "urn:oasis:names:tc:SAML:2.0:attrname-format:basic"
			}
			at.Typed = t.Bool("a.attr.typed")
			nv := t.Int(4, "a.attr.nv")
			for j := 0; j < nv; j++ {
				at.Values = append(at.Values, DrawValue(t, "a.attr.v"))
			}
		} else {
			at.Values = []string{"v"}
		}
		a.Attrs = append(a.Attrs, at)
	}
	if !rich || t.Chance(800, "a.authn") {
		au := &LAuthn{}
		if rich {
			au.SessionIndex = DrawValue(t, "a.si")
		} else {
			au.SessionIndex = "s1"
		}
		if !rich || t.Chance(800, "a.ai") {
			au.AuthnInstant = sp(RenderInstant(TruncTo(now.Add(-time.Second), f), f))
		}
		if rich && t.Bool("a.snooa") {
			au.SessionNotOnOrAfter = sp(RenderInstant(TruncTo(now.Add(8*time.Hour), f), f))
		}
		if t.Bool("a.classref") {
			au.ClassRef = sp(saml2.AuthnContextPasswordProtectedTransport)
		}
		a.Authn = au
	}
	return a
}

// GenResponse draws a conforming Response with n assertions.
func GenResponse(t *core.Tape, idp *IdP, fed Fed, now time.Time, n int, rich bool) *LResponse {
	f := DrawInstantForm(t)
	m := &LResponse{Kind: "Response", ID: idp.NewID("r"), Version: "2.0"}
	m.IssueInstant = RenderInstant(TruncTo(now, f), f)
	if t.Chance(800, "r.dest") {
		m.Destination = sp(fed.ACS)
	}
	if t.Bool("r.irt") {
		m.InResponseTo = "_req" + fmt.Sprint(t.Int(100, "r.irt.v"))
	}
	m.Issuer = sp(fed.IdPIssuer)
	m.HasStatus, m.HasStatusCode, m.StatusCode = true, true, StatusOK
	for i := 0; i < n; i++ {
		m.Assertions = append(m.Assertions, GenAssertion(t, idp, fed, now, rich))
	}
	return m
}

func GenLogout(t *core.Tape, idp *IdP, fed Fed, now time.Time, kind string) *LResponse {
	f := DrawInstantForm(t)
	m := &LResponse{Kind: kind, ID: idp.NewID("l"), Version: "2.0"}
	m.IssueInstant = RenderInstant(TruncTo(now, f), f)
	if t.Chance(800, "l.dest") {
		m.Destination = sp(fed.SLO)
	}
	m.Issuer = sp(fed.IdPIssuer)
	if kind == "LogoutRequest" {
		m.NameID = sp(DrawNonEmpty(t, "l.nameid"))
		if t.Bool("l.si") {
			m.SessionIndex = sp("s1")
		}
	} else {
		m.InResponseTo = "_req" + fmt.Sprint(t.Int(100, "l.irt"))
		m.HasStatus, m.HasStatusCode, m.StatusCode = true, true, StatusOK
	}
	return m
}

// exclusiveOnly forces exclusive canonicalisation (needed when an assertion is signed
// standalone and later verified inside another tree, i.e. encrypted assertions).
func (o *SigOpts) ExclusiveOnly() {
	if o.C14N != C14NAlgs[0] && o.C14N != C14NAlgs[1] {
		o.C14N = C14NAlgs[0]
	}
	if o.Transform != C14NAlgs[0] && o.Transform != C14NAlgs[1] {
		o.Transform = C14NAlgs[0]
	}
	// an InclusiveNamespaces prefix that is in scope in the Response but not in the
	// standalone plaintext changes the canonical form between signing and verification
	o.PrefixList = ""
}

var _ = dsig.Namespace
