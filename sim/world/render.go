package world

import (
	"fmt"
	"strings"
	"time"

	"verifsim/core"
)

const (
	NSProtocol  = "urn:oasis:names:tc:SAML:2.0:protocol"
	NSAssertion = "urn:oasis:names:tc:SAML:2.0:assertion"
	NSDsig      = "http://www.w3.org/2000/09/xmldsig#"
	NSXenc      = "http://www.w3.org/2001/04/xmlenc#"
	NSXsi       = "http://www.w3.org/2001/XMLSchema-instance"
	NSXs        = "http://www.w3.org/2001/XMLSchema"
	Bearer      = "urn:oasis:names:tc:SAML:2.0:cm:bearer"
	StatusOK    = "urn:oasis:names:tc:SAML:2.0:status:Success"
)

// Layout is the serialisation style of one rendered message. Every knob's zero value
// is the plainest choice.
type Layout struct {
	PStyle    int  // 0 samlp/saml on root; 1 default namespaces; 2 saml2p/saml2, redeclared per subtree; 3 odd prefixes, redundantly redeclared
	Pretty    bool // newline + indentation in element-only content
	SingleQ   bool // attribute values in single quotes
	XMLDecl   bool
	Comments  bool // comments between elements and inside text
	CDATA     bool // CDATA sections inside text
	CharRefs  bool // numeric character references inside text and attributes
	Shuffle   bool // attribute order shuffled
	SelfClose bool // empty elements as <a></a> instead of <a/>
	TagSpaces bool // extra white space inside tags: <a  b = "c" >, newlines between attributes
	Entities  bool // &quot; &apos; &#x...; with leading zeros / upper-case hex in character data
	Prolog    int  // 0 none, 1 comment before the root, 2 processing instruction before the root, 3 byte-order mark
	Epilog    int  // 0 none, 1 comment after the root, 2 white space after the root
	// ShadowRoot: the IdP itself writes vendor attributes in a foreign namespace that are spelled like the SAML
	// ones (ext:InResponseTo) on the message root, before (1) or after (2)
	// the real attributes; not schema-valid, but nothing in the library objects to it. 3-6: a namespace
	// declaration xmlns:ID / xmlns:InResponseTo / xmlns:Destination / xmlns:Version after the real attributes,
	// its prefix used by an element inside Extensions. Never drawn by DrawLayout.
	ShadowRoot int
	Extras     bool // optional schema-valid content a conforming IdP may add (Extensions, Advice, NameID / SubjectConfirmationData attributes, AuthenticatingAuthority, foreign attributes)
	Seed       uint64
}

func DrawLayout(t *core.Tape) Layout {
	l := Layout{}
	l.PStyle = t.Int(4, "lay.pstyle")
	flags := t.Int(128, "lay.flags")
	l.Pretty = flags&1 != 0
	l.SingleQ = flags&2 != 0
	l.XMLDecl = flags&4 != 0
	l.Comments = flags&8 != 0
	l.CDATA = flags&16 != 0
	l.CharRefs = flags&32 != 0
	l.Shuffle = flags&64 != 0
	l.SelfClose = t.Bool("lay.selfclose")
	l.Seed = t.Draw(1<<32, "lay.seed")
	extra := t.Int(64, "lay.extra")
	l.TagSpaces = extra&1 != 0
	l.Entities = extra&2 != 0
	l.Prolog = (extra >> 2) & 3
	l.Epilog = (extra >> 4) % 3
	l.Extras = t.Int(4, "lay.extras") == 1
	return l
}

func (l Layout) Sig() string {
	b := 0
	for i, f := range []bool{l.Pretty, l.SingleQ, l.XMLDecl, l.Comments, l.CDATA, l.CharRefs, l.Shuffle, l.SelfClose} {
		if f {
			b |= 1 << i
		}
	}
	x := 0
	if l.TagSpaces {
		x |= 1
	}
	if l.Entities {
		x |= 2
	}
	if l.Extras {
		x |= 4
	}
	return fmt.Sprintf("L%d.%x.%x%d%d", l.PStyle, b, x, l.Prolog, l.Epilog)
}

type attr struct{ k, v string }

type xw struct {
	b     strings.Builder
	l     Layout
	r     *core.SplitMix64
	depth int
}

func newXW(l Layout) *xw { return &xw{l: l, r: core.NewSplitMix(l.Seed + 0x51)} }

func (w *xw) rnd(n int) int { return int(w.r.Next() % uint64(n)) }

func (w *xw) q() string {
	if w.l.SingleQ {
		return "'"
	}
	return `"`
}

// encAttr renders an attribute value as a conforming producer must: markup characters
// and the quote escaped, TAB/LF/CR as character references.
func (w *xw) encAttr(v string) string {
	var b strings.Builder
	for _, c := range v {
		switch {
		case c == '&':
			b.WriteString("&amp;")
		case c == '<':
			b.WriteString("&lt;")
		case c == '"' && !w.l.SingleQ:
			b.WriteString("&quot;")
		case c == '\'' && w.l.SingleQ:
			b.WriteString("&apos;")
		case c == '\t':
			b.WriteString("&#x9;")
		case c == '\n':
			b.WriteString("&#xA;")
		case c == '\r':
			b.WriteString("&#xD;")
		case w.l.CharRefs && w.rnd(7) == 0:
			if w.rnd(2) == 0 {
				fmt.Fprintf(&b, "&#x%X;", c)
			} else {
				fmt.Fprintf(&b, "&#%d;", c)
			}
		default:
			b.WriteRune(c)
		}
	}
	return b.String()
}

// encText renders character data; depending on the layout it is split by comments,
// CDATA sections and character references, all of which a conforming parser folds
// back into the same string.
func (w *xw) encText(v string) string {
	var b strings.Builder
	rs := []rune(v)
	i := 0
	for i < len(rs) {
		if w.l.Comments && w.rnd(6) == 0 {
			b.WriteString("<!--" + []string{"c", " x ", "<y>", "&amp;"}[w.rnd(4)] + "-->")
		}
		if w.l.CDATA && w.rnd(5) == 0 {
			// take a run without CR and without "]]>"
			j := i
			n := 1 + w.rnd(6)
			for j < len(rs) && j-i < n && rs[j] != '\r' {
				j++
			}
			chunk := string(rs[i:j])
			if j > i && !strings.Contains(chunk, "]]>") && !strings.HasSuffix(chunk, "]") {
				b.WriteString("<![CDATA[" + chunk + "]]>")
				i = j
				continue
			}
		}
		c := rs[i]
		i++
		switch {
		case c == '&':
			b.WriteString("&amp;")
		case c == '<':
			b.WriteString("&lt;")
		case c == '>':
			b.WriteString("&gt;")
		case c == '\r':
			b.WriteString("&#xD;")
		case w.l.Entities && c == '"':
			b.WriteString("&quot;")
		case w.l.Entities && c == '\'':
			b.WriteString("&apos;")
		case w.l.Entities && w.rnd(9) == 0:
			fmt.Fprintf(&b, "&#x%06X;", c)
		case w.l.CharRefs && w.rnd(7) == 0:
			if w.rnd(2) == 0 {
				fmt.Fprintf(&b, "&#x%x;", c)
			} else {
				fmt.Fprintf(&b, "&#%d;", c)
			}
		default:
			b.WriteRune(c)
		}
	}
	if w.l.Comments && w.rnd(6) == 0 {
		b.WriteString("<!--t-->")
	}
	return b.String()
}

func (w *xw) nl() {
	if w.l.Pretty {
		w.b.WriteString("\n" + strings.Repeat("  ", w.depth))
	}
	if w.l.Comments && w.rnd(8) == 0 {
		w.b.WriteString("<!-- between -->")
	}
}

// open writes a start tag. ns are namespace declarations (rendered before or after the
// ordinary attributes), attrs ordinary attributes.
func (w *xw) open(name string, ns []attr, attrs []attr, empty bool) {
	w.b.WriteString("<" + name)
	if w.l.Shuffle && len(attrs) > 1 {
		for i := len(attrs) - 1; i > 0; i-- {
			j := w.rnd(i + 1)
			attrs[i], attrs[j] = attrs[j], attrs[i]
		}
	}
	wr := func(as []attr) {
		for _, a := range as {
			if a.k == "ID" { // kept literal so that harness-side text tools can locate elements
				w.b.WriteString(" " + a.k + "=" + w.q() + a.v + w.q())
				continue
			}
			sep, eq := " ", "="
			if w.l.TagSpaces {
				sep = []string{" ", "  ", "\n   ", "\t"}[w.rnd(4)]
				eq = []string{"=", " = ", "= "}[w.rnd(3)]
			}
			w.b.WriteString(sep + a.k + eq + w.q() + w.encAttr(a.v) + w.q())
		}
	}
	if w.l.Shuffle && w.rnd(2) == 0 {
		wr(attrs)
		wr(ns)
	} else {
		wr(ns)
		wr(attrs)
	}
	sp := ""
	if w.l.TagSpaces && w.rnd(2) == 0 {
		sp = " "
	}
	if empty {
		if w.l.SelfClose {
			w.b.WriteString(sp + "></" + name + sp + ">")
		} else {
			w.b.WriteString(sp + "/>")
		}
	} else {
		w.b.WriteString(sp + ">")
	}
}

func (w *xw) close(name string) {
	if w.l.TagSpaces && w.rnd(3) == 0 {
		w.b.WriteString("</" + name + " >")
		return
	}
	w.b.WriteString("</" + name + ">")
}

func (w *xw) textEl(name string, ns []attr, attrs []attr, text string) {
	w.open(name, ns, attrs, false)
	w.b.WriteString(w.encText(text))
	w.close(name)
}

// prefixes for the current style
type nsStyle struct {
	p, a          string // prefix with trailing colon or ""
	rootNS        []attr // declarations on the protocol root
	aSubtreeNS    []attr // declarations on each assertion-namespace subtree root under the protocol root
	aStandaloneNS []attr // declarations a standalone assertion document needs
}

func styleOf(ps int) nsStyle {
	switch ps {
	case 1:
		return nsStyle{"", "", []attr{{"xmlns", NSProtocol}}, []attr{{"xmlns", NSAssertion}}, []attr{{"xmlns", NSAssertion}}}
	case 2:
		return nsStyle{"saml2p:", "saml2:", []attr{{"xmlns:saml2p", NSProtocol}}, []attr{{"xmlns:saml2", NSAssertion}}, []attr{{"xmlns:saml2", NSAssertion}}}
	case 3:
		return nsStyle{"p:", "a:", []attr{{"xmlns:p", NSProtocol}, {"xmlns:a", NSAssertion}}, []attr{{"xmlns:a", NSAssertion}}, []attr{{"xmlns:a", NSAssertion}}}
	default:
		return nsStyle{"samlp:", "saml:", []attr{{"xmlns:samlp", NSProtocol}, {"xmlns:saml", NSAssertion}}, nil, []attr{{"xmlns:saml", NSAssertion}}}
	}
}

// SigSlot is the placeholder a renderer leaves where an enveloped signature goes.
func SigSlot(id string) string { return "\x00SIG:" + id + "\x00" }

// EncSlot is the placeholder for an assertion that will be delivered encrypted.
func EncSlot(id string) string { return "\x00ENC:" + id + "\x00" }

func optAttr(as []attr, k string, v *string) []attr {
	if v != nil {
		as = append(as, attr{k, *v})
	}
	return as
}

// extra returns the producer's additional attributes for element of (and the declaration xsi needs).
func (w *xw) extra(a *LAssertion, of string, as []attr) ([]attr, []attr) {
	var ns []attr
	for _, kv := range a.ExtraAttrs[of] {
		as = append(as, attr{kv[0], kv[1]})
		if strings.HasPrefix(kv[0], "xsi:") && len(ns) == 0 {
			ns = []attr{{"xmlns:xsi", NSXsi}}
		}
	}
	return as, ns
}

// twins writes the foreign-namespace namesakes the logical assertion asks for after element of.
func (w *xw) twins(a *LAssertion, of string) {
	for _, tw := range a.Twins {
		if tw.Of != of {
			continue
		}
		var as []attr
		for _, kv := range tw.Attrs {
			as = append(as, attr{kv[0], kv[1]})
		}
		w.nl()
		if tw.Text == "" {
			w.open("ft:"+of, []attr{{"xmlns:ft", "urn:example:not-saml"}}, as, true)
		} else {
			w.textEl("ft:"+of, []attr{{"xmlns:ft", "urn:example:not-saml"}}, as, tw.Text)
		}
	}
}

func (w *xw) assertion(a *LAssertion, st nsStyle, standalone bool) {
	A := st.a
	var ns []attr
	if standalone {
		ns = append(ns, st.aStandaloneNS...)
	} else {
		ns = append(ns, st.aSubtreeNS...)
	}
	attrs := []attr{{"ID", a.ID}, {"Version", a.Version}, {"IssueInstant", a.IssueInstant}}
	w.open(A+"Assertion", ns, attrs, false)
	w.depth++
	if a.Issuer != nil {
		w.nl()
		w.textEl(A+"Issuer", nil, nil, *a.Issuer)
	}
	if a.ForeignIssuer != nil {
		w.nl()
		w.textEl("fi:Issuer", []attr{{"xmlns:fi", "urn:example:not-saml"}}, nil, *a.ForeignIssuer)
	}
	if a.Sign != nil {
		w.b.WriteString(SigSlot(a.ID))
	}
	if a.HasSubject {
		w.nl()
		w.open(A+"Subject", nil, nil, false)
		w.depth++
		if a.NameID != nil {
			w.nl()
			var na []attr
			if w.l.Extras {
				na = []attr{{"Format", "urn:oasis:names:tc:SAML:1.1:nameid-format:unspecified"}, {"SPNameQualifier", "sp & \"qualifier\""}}
			}
			w.textEl(A+"NameID", nil, na, *a.NameID)
			w.twins(a, "NameID")
		}
		if a.HasSubjConf {
			w.nl()
			w.open(A+"SubjectConfirmation", nil, []attr{{"Method", a.Method}}, !a.HasSCD)
			if a.HasSCD {
				w.depth++
				w.nl()
				var sa, scdNS []attr
				sa = optAttr(sa, "NotOnOrAfter", a.SCNotOnOrAfter)
				sa = optAttr(sa, "Recipient", a.Recipient)
				if a.SCInResponseTo != "" {
					sa = append(sa, attr{"InResponseTo", a.SCInResponseTo})
				}
				if w.l.Extras {
					sa = append(sa, attr{"Address", "192.0.2.7"})
					// anyAttribute ##other: a vendor attribute spelled like a SAML one must not stand in for it
					sa = append([]attr{{"x500:Recipient", "https://vendor.example/recipient-hint"}, {"x500:InResponseTo", "_vendor_irt"}}, sa...)
					scdNS = []attr{{"xmlns:x500", "urn:oasis:names:tc:SAML:2.0:profiles:attribute:X500"}}
				}
				sa, xns := w.extra(a, "SubjectConfirmationData", sa)
				w.open(A+"SubjectConfirmationData", append(scdNS, xns...), sa, true)
				w.twins(a, "SubjectConfirmationData")
				w.depth--
				w.nl()
				w.close(A + "SubjectConfirmation")
			}
		}
		w.depth--
		w.nl()
		w.close(A + "Subject")
		w.twins(a, "Subject")
	}
	if a.HasConditions {
		w.nl()
		var ca []attr
		ca = optAttr(ca, "NotBefore", a.NotBefore)
		ca = optAttr(ca, "NotOnOrAfter", a.NotOnOrAfter)
		empty := len(a.AudienceRestrictions) == 0 && !a.OneTimeUse && a.Proxy == nil
		ca, cns := w.extra(a, "Conditions", ca)
		w.open(A+"Conditions", cns, ca, empty)
		if !empty {
			w.depth++
			for _, ar := range a.AudienceRestrictions {
				w.nl()
				w.open(A+"AudienceRestriction", nil, nil, len(ar) == 0)
				if len(ar) > 0 {
					w.depth++
					for _, au := range ar {
						w.nl()
						w.textEl(A+"Audience", nil, nil, au)
					}
					w.depth--
					w.nl()
					w.close(A + "AudienceRestriction")
				}
			}
			if a.OneTimeUse {
				w.nl()
				w.open(A+"OneTimeUse", nil, nil, true)
			}
			if a.Proxy != nil {
				w.nl()
				cnt := fmt.Sprint(a.Proxy.Count)
				if a.Proxy.CountLit != "" {
					cnt = a.Proxy.CountLit
				}
				pa, pns := w.extra(a, "ProxyRestriction", []attr{{"Count", cnt}})
				w.open(A+"ProxyRestriction", pns, pa, len(a.Proxy.Audiences) == 0)
				if len(a.Proxy.Audiences) > 0 {
					w.depth++
					for _, au := range a.Proxy.Audiences {
						w.nl()
						w.textEl(A+"Audience", nil, nil, au)
					}
					w.depth--
					w.nl()
					w.close(A + "ProxyRestriction")
				}
			}
			w.depth--
			w.nl()
			w.close(A + "Conditions")
		}
		w.twins(a, "Conditions")
	}
	if w.l.Extras {
		w.nl()
		w.open(A+"Advice", nil, nil, false)
		w.textEl(A+"AssertionIDRef", nil, nil, "_advice-ref")
		w.close(A + "Advice")
	}
	if a.Authn != nil {
		w.nl()
		var aa []attr
		aa = optAttr(aa, "AuthnInstant", a.Authn.AuthnInstant)
		if a.Authn.SessionIndex != "" {
			aa = append(aa, attr{"SessionIndex", a.Authn.SessionIndex})
		}
		aa = optAttr(aa, "SessionNotOnOrAfter", a.Authn.SessionNotOnOrAfter)
		aa, ans := w.extra(a, "AuthnStatement", aa)
		w.open(A+"AuthnStatement", ans, aa, a.Authn.ClassRef == nil)
		if a.Authn.ClassRef != nil {
			w.depth++
			w.nl()
			w.open(A+"AuthnContext", nil, nil, false)
			w.depth++
			w.nl()
			w.textEl(A+"AuthnContextClassRef", nil, nil, *a.Authn.ClassRef)
			if w.l.Extras {
				w.textEl(A+"AuthenticatingAuthority", nil, nil, "https://upstream-idp.example/meta")
			}
			w.depth--
			w.nl()
			w.close(A + "AuthnContext")
			w.depth--
			w.nl()
			w.close(A + "AuthnStatement")
		}
		w.twins(a, "AuthnStatement")
	}
	if a.HasAttrStmt {
		w.nl()
		w.open(A+"AttributeStatement", nil, nil, len(a.Attrs) == 0)
		if len(a.Attrs) > 0 {
			w.depth++
			for _, at := range a.Attrs {
				w.nl()
				aa := []attr{{"Name", at.Name}}
				if at.FriendlyName != "" {
					aa = append(aa, attr{"FriendlyName", at.FriendlyName})
				}
				if at.NameFormat != "" {
					aa = append(aa, attr{"NameFormat", at.NameFormat})
				}
				var ans []attr
				if w.l.Extras {
					ans = []attr{{"xmlns:x500", "urn:oasis:names:tc:SAML:2.0:profiles:attribute:X500"}}
					aa = append(aa, attr{"x500:Encoding", "LDAP"})
					if w.rnd(2) == 0 {
						aa = append([]attr{{"x500:Name", "2.5.4.3"}, {"x500:FriendlyName", "vendorFriendly"}}, aa...)
					}
				}
				w.open(A+"Attribute", ans, aa, len(at.Values) == 0)
				if len(at.Values) > 0 {
					w.depth++
					for _, v := range at.Values {
						w.nl()
						if at.Typed {
							w.textEl(A+"AttributeValue", []attr{{"xmlns:xsi", NSXsi}, {"xmlns:xs", NSXs}}, []attr{{"xsi:type", "xs:string"}}, v)
						} else {
							w.textEl(A+"AttributeValue", nil, nil, v)
						}
					}
					w.depth--
					w.nl()
					w.close(A + "Attribute")
				}
			}
			w.depth--
			w.nl()
			w.close(A + "AttributeStatement")
		}
	}
	w.depth--
	w.nl()
	w.close(A + "Assertion")
}

// RenderAssertion renders a standalone assertion document (what gets encrypted).
func RenderAssertion(a *LAssertion, l Layout) string {
	w := newXW(l)
	l.XMLDecl = false
	w.assertion(a, styleOf(l.PStyle), true)
	return w.b.String()
}

// RenderAssertionInherited renders the assertion as it would stand inside the Response:
// with prefix styles that declare the assertion namespace on the Response only, the
// plaintext carries no declaration of its own (some IdPs encrypt exactly that).
func RenderAssertionInherited(a *LAssertion, l Layout) string {
	w := newXW(l)
	w.assertion(a, styleOf(l.PStyle), false)
	return w.b.String()
}

// RenderMessage renders a protocol message (Response, LogoutResponse, LogoutRequest)
// with signature and encryption slots left as placeholders.
func RenderMessage(m *LResponse, l Layout) string {
	w := newXW(l)
	st := styleOf(l.PStyle)
	P, A := st.p, st.a
	if l.Prolog == 3 && !l.XMLDecl {
		w.b.WriteString("\ufeff")
	}
	if l.XMLDecl {
		w.b.WriteString(`<?xml version="1.0" encoding="UTF-8"?>`)
		if l.Pretty {
			w.b.WriteString("\n")
		}
	}
	switch l.Prolog {
	case 1:
		w.b.WriteString("<!-- issued by the stub IdP -->\n")
	case 2:
		w.b.WriteString("<?idp-stub trace=\"1\"?>")
	}
	attrs := []attr{{"ID", m.ID}, {"Version", m.Version}, {"IssueInstant", m.IssueInstant}}
	attrs = optAttr(attrs, "Destination", m.Destination)
	if m.InResponseTo != "" {
		attrs = append(attrs, attr{"InResponseTo", m.InResponseTo})
	}
	rootNS := st.rootNS
	usedDecl := ""
	if l.ShadowRoot >= 3 {
		// a namespace declaration whose prefix is spelled like a SAML attribute, written after the real
		// attributes and used by an extension element below (so it is not an unused declaration)
		usedDecl = map[int]string{3: "ID", 4: "InResponseTo", 5: "Destination", 6: "Version"}[l.ShadowRoot]
		attrs = append(attrs, attr{"xmlns:" + usedDecl, "urn:vendor:" + usedDecl})
	} else if l.ShadowRoot != 0 {
		// (ext:ID / ext:Destination / ext:Version would make the message unacceptable whichever attribute wins)
		shadow := []attr{{"ext:InResponseTo", "_vendor_irt"}}
		if l.ShadowRoot == 1 {
			attrs = append(shadow, attrs...)
		} else {
			attrs = append(attrs, shadow...)
		}
		rootNS = append(append([]attr(nil), rootNS...), attr{"xmlns:ext", "urn:vendor:extension"})
	}
	w.open(P+m.Kind, rootNS, attrs, false)
	w.depth++
	if m.Issuer != nil {
		w.nl()
		w.textEl(A+"Issuer", st.aSubtreeNS, nil, *m.Issuer)
	}
	if m.ForeignIssuer != nil {
		w.nl()
		w.textEl("fi:Issuer", []attr{{"xmlns:fi", "urn:example:not-saml"}}, nil, *m.ForeignIssuer)
	}
	if m.Sign != nil {
		w.b.WriteString(SigSlot(m.ID))
	}
	if usedDecl != "" {
		w.nl()
		w.open(P+"Extensions", nil, nil, false)
		w.open(usedDecl+":hint", nil, nil, true)
		w.close(P + "Extensions")
	} else if w.l.Extras {
		w.nl()
		w.open(P+"Extensions", nil, nil, false)
		w.textEl("x:Note", []attr{{"xmlns:x", "urn:example:extension"}}, []attr{{"lang", "en"}}, "extension <content> & more")
		w.close(P + "Extensions")
	}
	if m.Kind == "LogoutRequest" {
		if m.NameID != nil {
			w.nl()
			w.textEl(A+"NameID", st.aSubtreeNS, nil, *m.NameID)
		}
		if m.SessionIndex != nil {
			w.nl()
			w.textEl(P+"SessionIndex", nil, nil, *m.SessionIndex)
		}
	} else if m.HasStatus {
		w.nl()
		w.open(P+"Status", nil, nil, !m.HasStatusCode)
		if m.HasStatusCode {
			w.depth++
			w.nl()
			if m.SubStatusCode != nil {
				w.open(P+"StatusCode", nil, []attr{{"Value", m.StatusCode}}, false)
				w.open(P+"StatusCode", nil, []attr{{"Value", *m.SubStatusCode}}, true)
				w.close(P + "StatusCode")
			} else {
				w.open(P+"StatusCode", nil, []attr{{"Value", m.StatusCode}}, true)
			}
			w.depth--
			w.nl()
			w.close(P + "Status")
		}
	}
	for _, a := range m.Assertions {
		w.nl()
		if a.Encrypt != nil {
			w.b.WriteString(EncSlot(a.ID))
		} else {
			w.assertion(a, st, false)
		}
	}
	w.depth--
	w.nl()
	w.close(P + m.Kind)
	switch l.Epilog {
	case 1:
		w.b.WriteString("<!-- end -->")
	case 2:
		w.b.WriteString("\n  \n")
	}
	return w.b.String()
}

// ---- instants -----------------------------------------------------------------------

// InstantForm is an RFC 3339 rendering: zone offset in minutes and fraction digits.
type InstantForm struct {
	OffsetMin int
	Frac      int
}

var offsetPool = []int{0, 60, -300, 330, 345, -720, 840, -1, 1}

func DrawInstantForm(t *core.Tape) InstantForm {
	return InstantForm{OffsetMin: offsetPool[t.Int(len(offsetPool), "inst.offset")], Frac: t.Int(10, "inst.frac")}
}

// RenderInstant renders t; with OffsetMin==0 the zone is written as "Z".
func RenderInstant(t time.Time, f InstantForm) string {
	loc := time.UTC
	if f.OffsetMin != 0 {
		loc = time.FixedZone("", f.OffsetMin*60)
	}
	lt := t.In(loc)
	s := lt.Format("2006-01-02T15:04:05")
	if f.Frac > 0 {
		ns := fmt.Sprintf("%09d", lt.Nanosecond())
		s += "." + ns[:f.Frac]
	}
	if f.OffsetMin == 0 {
		return s + "Z"
	}
	return s + lt.Format("Z07:00")
}

// TruncTo returns t truncated to what form f can express (so that rendering is exact).
func TruncTo(t time.Time, f InstantForm) time.Time {
	unit := time.Second
	for i := 0; i < f.Frac; i++ {
		unit /= 10
	}
	if unit < 1 {
		unit = 1
	}
	return t.Truncate(unit)
}
