package world

import (
	"bytes"
	"compress/flate"
	"crypto/aes"
	"crypto/cipher"
	"crypto/des"
	"crypto/rsa"
	"crypto/sha1"
	"crypto/sha256"
	"crypto/sha512"
	"encoding/base64"
	"errors"
	"fmt"
	"hash"
	"io"
	"math/big"
	"strings"

	"github.com/russellhaering/gosaml2/types"

	"verifsim/core"
)

// EncOpts describes how an assertion is encrypted to the SP (the library has no
// encryptor; this one is written from crypto/*).
type EncOpts struct {
	DataAlg   string
	KeyAlg    string
	Digest    string // "" = no DigestMethod element
	Detached  bool   // EncryptedKey as sibling of EncryptedData
	EmbedCert []byte // recipient certificate put into EncryptedKey/KeyInfo (nil = absent)
	Recipient *rsa.PublicKey
	Rand      io.Reader // for symmetric key, IV, padding
	InheritNS bool      // plaintext without its own namespace declaration (inherits the Response's)
	// EnvelopeNSFromRoot: the EncryptedAssertion element does not declare its own prefix; it relies on the
	// declaration on the Response root (only layouts whose root declares xmlns:saml)
	EnvelopeNSFromRoot bool
	// RecipientAttr: the optional Recipient attribute of the EncryptedKey ("" = absent); a hint naming the
	// intended recipient (entity ID, endpoint, alias): not something the SP may match keys on
	RecipientAttr string
	// B64Wrap: base64 text (cipher values, certificate) compact (0) or in 76-column lines with a leading
	// and a trailing line break (1: LF, 2: CRLF) as Santuario / xmlsec write it
	B64Wrap int
	// CompressPlaintext: the plaintext is DEFLATE-compressed before encryption (the SP inflates whatever
	// does not parse, top-level messages and plaintexts alike)
	CompressPlaintext bool
	// ZlibStyleEnd: that DEFLATE stream ends the way zlib ends one (sync flush, then an empty final
	// fixed-Huffman block: the octets 03 00) instead of Go's empty final stored block
	ZlibStyleEnd bool
}

func (o *EncOpts) b64(b []byte) string {
	s := base64.StdEncoding.EncodeToString(b)
	if o.B64Wrap == 0 {
		return s
	}
	nl := "\n"
	if o.B64Wrap == 2 {
		nl = "\r\n"
	}
	var sb strings.Builder
	sb.WriteString(nl)
	for len(s) > 76 {
		sb.WriteString(s[:76])
		sb.WriteString(nl)
		s = s[76:]
	}
	sb.WriteString(s)
	sb.WriteString(nl)
	return sb.String()
}

var DataAlgs = []string{types.MethodAES128GCM, types.MethodAES192GCM, types.MethodAES256GCM, types.MethodAES128CBC, types.MethodAES256CBC}
var KeyAlgs = []string{types.MethodRSAOAEP, types.MethodRSAOAEP2, types.MethodRSAv1_5}
var OAEPDigests = []string{"", types.MethodSHA1, types.MethodSHA256, types.MethodSHA512}

func KeySizeOf(dataAlg string) int {
	switch {
	case strings.Contains(dataAlg, "aes192"), strings.Contains(dataAlg, "tripledes"):
		return 24
	case strings.Contains(dataAlg, "aes256"):
		return 32
	case strings.Contains(dataAlg, "aes128"):
		return 16
	}
	switch dataAlg {
	case types.MethodAES128GCM, types.MethodAES128CBC:
		return 16
	case types.MethodAES192GCM:
		return 24
	case types.MethodAES256GCM, types.MethodAES256CBC:
		return 32
	}
	return 16
}

func DrawEncOpts(t *core.Tape, recipient *rsa.PublicKey, spCert []byte) *EncOpts {
	o := &EncOpts{Recipient: recipient}
	o.DataAlg = DataAlgs[t.Int(len(DataAlgs), "enc.data")]
	o.KeyAlg = KeyAlgs[t.Int(len(KeyAlgs), "enc.key")]
	if o.KeyAlg != types.MethodRSAv1_5 {
		o.Digest = OAEPDigests[t.Int(len(OAEPDigests), "enc.digest")]
	}
	o.Detached = t.Bool("enc.detached")
	if t.Bool("enc.embedcert") {
		o.EmbedCert = spCert
	}
	o.Rand = t.SubRand("enc.rand")
	o.EnvelopeNSFromRoot = t.Int(3, "enc.nsfromroot") == 1
	o.RecipientAttr = []string{"", "", "https://sp.example/acs", "https://sp.example/meta", "sp-alias", " "}[t.Int(6, "enc.recipientattr")]
	o.B64Wrap = t.Int(3, "enc.b64wrap")
	return o
}

func (o *EncOpts) Sig() string {
	ix := func(xs []string, v string) int {
		for i, x := range xs {
			if x == v {
				return i
			}
		}
		return -1
	}
	return fmt.Sprintf("E%d%d%d%v%v", ix(DataAlgs, o.DataAlg), ix(KeyAlgs, o.KeyAlg), ix(OAEPDigests, o.Digest), o.Detached, o.EmbedCert != nil)
}

// SymEncrypt encrypts pt under key with the data algorithm (XML-Enc framing: IV/nonce
// prefix; CBC with XML-Enc padding whose filler bytes are arbitrary).
func SymEncrypt(dataAlg string, key, pt []byte, rnd io.Reader) ([]byte, error) {
	var blk cipher.Block
	var err error
	if strings.Contains(dataAlg, "tripledes") {
		blk, err = des.NewTripleDESCipher(key)
	} else {
		blk, err = aes.NewCipher(key)
	}
	if err != nil {
		return nil, err
	}
	bs := blk.BlockSize()
	switch {
	case strings.HasSuffix(dataAlg, "-cbc"):
		iv := make([]byte, bs)
		io.ReadFull(rnd, iv)
		pad := bs - len(pt)%bs
		p := append(append([]byte{}, pt...), make([]byte, pad)...)
		io.ReadFull(rnd, p[len(pt):])
		p[len(p)-1] = byte(pad)
		out := make([]byte, len(p))
		cipher.NewCBCEncrypter(blk, iv).CryptBlocks(out, p)
		return append(iv, out...), nil
	default:
		g, err := cipher.NewGCM(blk)
		if err != nil {
			return nil, err
		}
		n := make([]byte, 12)
		io.ReadFull(rnd, n)
		return append(n, g.Seal(nil, n, pt, nil)...), nil
	}
}

func oaepHash(digest string) hash.Hash {
	switch digest {
	case types.MethodSHA256:
		return sha256.New()
	case types.MethodSHA512:
		return sha512.New()
	}
	return sha1.New()
}

// WrapKey transports the symmetric key to the recipient. The padding is written here
// (EME-OAEP / EME-PKCS1-v1_5 over a raw RSA operation) instead of calling crypto/rsa's
// encryptors, because those deliberately consume a non-deterministic amount of randomness;
// with rnd drawn from the tape every ciphertext byte is a pure function of the run seed.
func WrapKey(keyAlg, digest string, pub *rsa.PublicKey, key []byte, rnd io.Reader) ([]byte, error) {
	if rnd == nil {
		rnd = &constReader{}
	}
	k := pub.Size()
	var em []byte
	if keyAlg == types.MethodRSAv1_5 {
		if len(key) > k-11 {
			return nil, errors.New("message too long for RSA key")
		}
		em = make([]byte, k)
		em[1] = 2
		ps := em[2 : k-len(key)-1]
		io.ReadFull(rnd, ps)
		for i := range ps {
			if ps[i] == 0 {
				ps[i] = 0x5a
			}
		}
		copy(em[k-len(key):], key)
	} else {
		h := oaepHash(digest)
		hLen := h.Size()
		if len(key) > k-2*hLen-2 {
			return nil, errors.New("message too long for RSA key")
		}
		h.Reset()
		lHash := h.Sum(nil)
		em = make([]byte, k)
		seed := em[1 : 1+hLen]
		db := em[1+hLen:]
		copy(db, lHash)
		db[len(db)-len(key)-1] = 1
		copy(db[len(db)-len(key):], key)
		io.ReadFull(rnd, seed)
		mgf1XOR(db, h, seed)
		mgf1XOR(seed, h, db)
	}
	m := new(big.Int).SetBytes(em)
	c := new(big.Int).Exp(m, big.NewInt(int64(pub.E)), pub.N)
	out := make([]byte, k)
	c.FillBytes(out)
	return out, nil
}

func mgf1XOR(out []byte, h hash.Hash, seed []byte) {
	var counter [4]byte
	done := 0
	for done < len(out) {
		h.Reset()
		h.Write(seed)
		h.Write(counter[:])
		d := h.Sum(nil)
		for i := 0; i < len(d) && done < len(out); i++ {
			out[done] ^= d[i]
			done++
		}
		for i := 3; i >= 0; i-- {
			counter[i]++
			if counter[i] != 0 {
				break
			}
		}
	}
}

type constReader struct{ n byte }

func (c *constReader) Read(p []byte) (int, error) {
	for i := range p {
		c.n += 7
		p[i] = c.n | 1
	}
	return len(p), nil
}

// EncryptedAssertionXML builds the EncryptedAssertion element around given ciphertext
// and wrapped key (so hostile lengths can be placed by the adversary as well).
func EncryptedAssertionXML(o *EncOpts, ct, ek []byte) string {
	dm := ""
	if o.Digest != "" {
		dm = `<ds:DigestMethod xmlns:ds="` + NSDsig + `" Algorithm="` + o.Digest + `"/>`
	}
	ci := ""
	if o.EmbedCert != nil {
		ci = `<ds:KeyInfo xmlns:ds="` + NSDsig + `"><ds:X509Data><ds:X509Certificate>` + o.b64(o.EmbedCert) + `</ds:X509Certificate></ds:X509Data></ds:KeyInfo>`
	}
	ra := ""
	if o.RecipientAttr != "" {
		ra = ` Recipient="` + strings.NewReplacer("&", "&amp;", `"`, "&quot;", "<", "&lt;").Replace(o.RecipientAttr) + `"`
	}
	ekx := `<xenc:EncryptedKey xmlns:xenc="` + NSXenc + `"` + ra + `><xenc:EncryptionMethod Algorithm="` + o.KeyAlg + `">` + dm + `</xenc:EncryptionMethod>` + ci + `<xenc:CipherData><xenc:CipherValue>` + o.b64(ek) + `</xenc:CipherValue></xenc:CipherData></xenc:EncryptedKey>`
	inl, det := ekx, ""
	if o.Detached {
		inl, det = "", ekx
	}
	return `<saml:EncryptedAssertion xmlns:saml="` + NSAssertion + `"><xenc:EncryptedData xmlns:xenc="` + NSXenc + `" Type="http://www.w3.org/2001/04/xmlenc#Element"><xenc:EncryptionMethod Algorithm="` + o.DataAlg + `"/><ds:KeyInfo xmlns:ds="` + NSDsig + `">` + inl + `</ds:KeyInfo><xenc:CipherData><xenc:CipherValue>` + o.b64(ct) + `</xenc:CipherValue></xenc:CipherData></xenc:EncryptedData>` + det + `</saml:EncryptedAssertion>`
}

// EncryptAssertion encrypts plaintext (a standalone assertion document, or anything an
// attacker likes) to the recipient.
func EncryptAssertion(o *EncOpts, pt []byte) (string, error) {
	if o.CompressPlaintext {
		if o.ZlibStyleEnd {
			pt = DeflateZlibStyle(pt, 6)
		} else {
			pt = Deflate(pt, 6)
		}
	}
	key := make([]byte, KeySizeOf(o.DataAlg))
	io.ReadFull(o.Rand, key)
	ct, err := SymEncrypt(o.DataAlg, key, pt, o.Rand)
	if err != nil {
		return "", err
	}
	ek, err := WrapKey(o.KeyAlg, o.Digest, o.Recipient, key, o.Rand)
	if err != nil {
		return "", err
	}
	return EncryptedAssertionXML(o, ct, ek), nil
}

// ---- presentation --------------------------------------------------------------------

func B64(b []byte) string { return base64.StdEncoding.EncodeToString(b) }

func Deflate(b []byte, level int) []byte {
	var buf bytes.Buffer
	w, err := flate.NewWriter(&buf, level)
	if err != nil {
		panic(err)
	}
	w.Write(b)
	w.Close()
	return buf.Bytes()
}

// DeflateZlibStyle ends the stream the way zlib does: a sync flush (00 00 ff ff) and then an empty final
// block with fixed Huffman codes, which is the two octets 03 00 - the stream ends in a zero octet.
func DeflateZlibStyle(b []byte, level int) []byte {
	var buf bytes.Buffer
	w, err := flate.NewWriter(&buf, level)
	if err != nil {
		panic(err)
	}
	w.Write(b)
	w.Flush()
	return append(buf.Bytes(), 0x03, 0x00)
}

// Present encodes a document for the POST binding: raw (level<-2 means raw) or DEFLATE.
func Present(xml string, compress bool, level int) string {
	if !compress {
		return B64([]byte(xml))
	}
	return B64(Deflate([]byte(xml), level))
}

// ---- hand-made DEFLATE streams ---------------------------------------------------------

// StoredDeflate writes data as stored (BTYPE=00) blocks of the given sizes (the last size is
// extended or cut to fit); hdr gives the first byte of block i (its low three bits are set
// by this function: BFINAL and BTYPE=00; the other five bits are padding a decoder ignores).
// emptyFinal appends a zero-length final block instead of marking the last data block final.
func StoredDeflate(data []byte, sizes []int, hdr func(i int) byte, emptyFinal bool) []byte {
	var out []byte
	rest := data
	for i := 0; ; i++ {
		n := len(rest)
		if i < len(sizes)-1 && sizes[i] < n {
			n = sizes[i]
		}
		if n > 65535 {
			n = 65535
		}
		last := n == len(rest)
		b := hdr(i) &^ 7
		if last && !emptyFinal {
			b |= 1
		}
		out = append(out, b, byte(n), byte(n>>8), ^byte(n), ^byte(n>>8))
		out = append(out, rest[:n]...)
		rest = rest[n:]
		if last {
			break
		}
	}
	if emptyFinal {
		out = append(out, 1, 0, 0, 0xff, 0xff)
	}
	return out
}

// TextCleanBlockLen reports whether a stored block of length n has a header whose LEN and
// NLEN octets are characters that may appear in XML text and attribute values (so that the
// stream, read as a document, stays well-formed across the block boundary).
func TextCleanBlockLen(n int) bool {
	l0, l1 := n&0xff, n>>8
	if l0 < 0x20 || l0 > 0x3d || l0 == 0x22 || l0 == 0x26 || l0 == 0x27 || l0 == 0x3c {
		return false
	}
	return l1 >= 0x40 && l1 <= 0x7e
}

// TextCleanHeaders are first octets of non-final stored blocks that are plain ASCII characters.
var TextCleanHeaders = []byte{0x20, 0x28, 0x30, 0x38, 0x40, 0x48, 0x50, 0x58, 0x60, 0x68, 0x70, 0x78}

// ---- hand-made leading blocks ------------------------------------------------------------

type bitWriter struct {
	out  []byte
	acc  uint32
	nbit uint
}

// bits writes the n low bits of v, least significant first (header fields, extra bits).
func (w *bitWriter) bits(v uint32, n uint) {
	for i := uint(0); i < n; i++ {
		w.acc |= ((v >> i) & 1) << w.nbit
		w.nbit++
		if w.nbit == 8 {
			w.out = append(w.out, byte(w.acc))
			w.acc, w.nbit = 0, 0
		}
	}
}

// code writes a Huffman code of n bits, most significant first.
func (w *bitWriter) code(v uint32, n uint) {
	for i := int(n) - 1; i >= 0; i-- {
		w.bits((v>>uint(i))&1, 1)
	}
}

// LeadingEmptyBlocks returns two legal, empty, non-final DEFLATE blocks that any complete stream may
// follow (what a flushing compressor emits before the data): a dynamic-Huffman block that declares
// 257+hlit literal/length codes of which only end-of-block is in use, and an empty stored block that
// realigns to a byte boundary. 2 <= hlit <= 9; the first octet is 0x04 + 8*hlit (hlit 7: '<').
func LeadingEmptyBlocks(hlit int) []byte {
	if hlit < 2 || hlit > 9 {
		panic("LeadingEmptyBlocks: hlit out of range")
	}
	w := &bitWriter{}
	w.bits(0, 1)            // BFINAL
	w.bits(2, 2)            // BTYPE: dynamic Huffman
	w.bits(uint32(hlit), 5) // HLIT
	w.bits(0, 5)            // HDIST: one distance code
	w.bits(14, 4)           // HCLEN: 18 code-length codes follow
	// lengths of the code-length codes in the order 16 17 18 0 8 7 9 6 10 5 11 4 12 3 13 2 14 1:
	// symbol 18 one bit ("0"), symbols 1 and 17 two bits ("10", "11")
	for _, l := range []uint32{0, 2, 1, 0, 0, 0, 0, 0, 0, 0, 0, 0, 0, 0, 0, 0, 0, 2} {
		w.bits(l, 3)
	}
	w.code(0, 1)
	w.bits(138-11, 7) // 138 zero lengths
	w.code(0, 1)
	w.bits(118-11, 7) // 118 zero lengths: literals 0..255
	w.code(2, 2)      // length 1 for symbol 256 (end of block)
	w.code(3, 2)
	w.bits(uint32(hlit+1-3), 3) // zero lengths for the remaining literal/length codes and the distance code
	w.code(0, 1)                // end of block
	w.bits(0, 1)                // BFINAL
	w.bits(0, 2)                // BTYPE: stored
	if w.nbit > 0 {
		w.out = append(w.out, byte(w.acc))
	}
	return append(w.out, 0x00, 0x00, 0xff, 0xff)
}
