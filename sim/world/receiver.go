package world

import (
	"bytes"
	"compress/flate"
	"crypto"
	"crypto/ecdsa"
	"crypto/rsa"
	"crypto/x509"
	"encoding/base64"
	"errors"
	"fmt"
	"io"
	"net/url"
	"strings"
	"time"

	"github.com/beevik/etree"
	dsig "github.com/russellhaering/goxmldsig"
	"golang.org/x/net/html"
)

// ---- conforming XML front end ------------------------------------------------------------
//
// Go's XML parser normalises line ends in character data but omits attribute-value
// normalisation (XML 1.0 section 3.3.3): a conforming recipient turns every literal TAB, LF and
// CR inside an attribute value into a space (character references are left alone). The strict
// IdP receiver applies that before parsing, so what it reads is what any conforming stack reads.

func NormalizeAttrWhitespace(raw []byte) []byte {
	out := make([]byte, 0, len(raw))
	i := 0
	n := len(raw)
	for i < n {
		c := raw[i]
		if c != '<' {
			out = append(out, c)
			i++
			continue
		}
		// comment, CDATA, PI, declaration: copy verbatim
		switch {
		case bytes.HasPrefix(raw[i:], []byte("<!--")):
			j := bytes.Index(raw[i+4:], []byte("-->"))
			if j < 0 {
				return append(out, raw[i:]...)
			}
			out = append(out, raw[i:i+4+j+3]...)
			i += 4 + j + 3
			continue
		case bytes.HasPrefix(raw[i:], []byte("<![CDATA[")):
			j := bytes.Index(raw[i:], []byte("]]>"))
			if j < 0 {
				return append(out, raw[i:]...)
			}
			out = append(out, raw[i:i+j+3]...)
			i += j + 3
			continue
		case bytes.HasPrefix(raw[i:], []byte("<?")):
			j := bytes.Index(raw[i:], []byte("?>"))
			if j < 0 {
				return append(out, raw[i:]...)
			}
			out = append(out, raw[i:i+j+2]...)
			i += j + 2
			continue
		}
		// a tag: walk to the closing '>' outside quotes
		var q byte
		for i < n {
			c = raw[i]
			if q != 0 {
				switch c {
				case q:
					q = 0
					out = append(out, c)
				case '\r':
					if i+1 < n && raw[i+1] == '\n' {
						i++
					}
					out = append(out, ' ')
				case '\n', '\t':
					out = append(out, ' ')
				default:
					out = append(out, c)
				}
				i++
				continue
			}
			out = append(out, c)
			i++
			if c == '"' || c == '\'' {
				q = c
			} else if c == '>' {
				break
			}
		}
	}
	return out
}

// ConformingParse parses a produced document the way a conforming XML recipient would.
func ConformingParse(raw []byte) (*etree.Document, error) {
	d := etree.NewDocument()
	if err := d.ReadFromBytes(NormalizeAttrWhitespace(raw)); err != nil {
		return nil, err
	}
	if d.Root() == nil {
		return nil, errors.New("no root element")
	}
	return d, nil
}

// SigFacts are what the strict receiver checks independently of signature verification.
type SigFacts struct {
	Present       bool
	Count         int
	IndexInParent int  // position among the root's child elements
	AfterIssuer   bool // element immediately before the Signature is Issuer
	RefURI        string
	SigMethod     string
	C14NMethod    string
	Transforms    []string
	DigestMethod  string
	Certs         [][]byte
	NestedSigs    int // Signature elements anywhere else in the document
}

func ReadSigFacts(root *etree.Element) SigFacts {
	var f SigFacts
	kids := root.ChildElements()
	for i, c := range kids {
		if c.Tag == "Signature" && c.NamespaceURI() == NSDsig {
			f.Count++
			if f.Present {
				continue
			}
			f.Present = true
			f.IndexInParent = i
			f.AfterIssuer = i > 0 && kids[i-1].Tag == "Issuer"
			si := firstByTag(c, "SignedInfo")
			if si != nil {
				if e := firstByTag(si, "CanonicalizationMethod"); e != nil {
					f.C14NMethod = e.SelectAttrValue("Algorithm", "")
				}
				if e := firstByTag(si, "SignatureMethod"); e != nil {
					f.SigMethod = e.SelectAttrValue("Algorithm", "")
				}
				if ref := firstByTag(si, "Reference"); ref != nil {
					f.RefURI = ref.SelectAttrValue("URI", "\x00absent")
					if ts := firstByTag(ref, "Transforms"); ts != nil {
						for _, t := range childrenByTag(ts, "Transform") {
							f.Transforms = append(f.Transforms, t.SelectAttrValue("Algorithm", ""))
						}
					}
					if e := firstByTag(ref, "DigestMethod"); e != nil {
						f.DigestMethod = e.SelectAttrValue("Algorithm", "")
					}
				}
			}
			if ki := firstByTag(c, "KeyInfo"); ki != nil {
				if xd := firstByTag(ki, "X509Data"); xd != nil {
					for _, xc := range childrenByTag(xd, "X509Certificate") {
						b, err := base64.StdEncoding.DecodeString(strings.Join(strings.Fields(xc.Text()), ""))
						if err == nil {
							f.Certs = append(f.Certs, b)
						}
					}
				}
			}
		}
	}
	for _, s := range root.FindElements("//Signature") {
		if s.Parent() != root {
			f.NestedSigs++
		}
	}
	return f
}

// VerifyEnveloped verifies the root's enveloped signature with goxmldsig against exactly
// one trusted certificate at the given clock.
func VerifyEnveloped(root *etree.Element, certDER []byte, clk *dsig.Clock) error {
	c, err := x509.ParseCertificate(certDER)
	if err != nil {
		return fmt.Errorf("published certificate does not parse: %v", err)
	}
	vc := dsig.NewDefaultValidationContext(&dsig.MemoryX509CertificateStore{Roots: []*x509.Certificate{c}})
	// the recipient checks the signature under the published certificate; whether it still honours a
	// certificate outside its validity period is the recipient's policy, not the SP's business: verify at an
	// instant inside the certificate's own window
	_ = clk
	vc.Clock = dsig.NewFakeClockAt(c.NotBefore.Add(time.Second))
	_, err = vc.Validate(root)
	return err
}

// ---- browser: HTML POST pages ---------------------------------------------------------------

type FormField struct{ Name, Value, Type string }

type ParsedPage struct {
	Skeleton []string // depth:element[attribute names] for every element, document order
	Forms    int
	Method   string
	Action   string
	ID       string
	Fields   []FormField
	Scripts  []string
}

// ParsePage runs the HTML5 parsing algorithm over a produced page.
func ParsePage(body []byte) (*ParsedPage, error) {
	n, err := html.Parse(bytes.NewReader(body))
	if err != nil {
		return nil, err
	}
	p := &ParsedPage{}
	var walk func(n *html.Node, depth int, inForm bool)
	walk = func(n *html.Node, depth int, inForm bool) {
		if n.Type == html.ElementNode {
			var an []string
			for _, a := range n.Attr {
				an = append(an, a.Key)
			}
			p.Skeleton = append(p.Skeleton, fmt.Sprintf("%d:%s%v", depth, n.Data, an))
			switch n.Data {
			case "form":
				p.Forms++
				inForm = true
				for _, a := range n.Attr {
					switch a.Key {
					case "method":
						p.Method = a.Val
					case "action":
						p.Action = a.Val
					case "id":
						p.ID = a.Val
					}
				}
			case "input":
				var f FormField
				for _, a := range n.Attr {
					switch a.Key {
					case "name":
						f.Name = a.Val
					case "value":
						f.Value = a.Val
					case "type":
						f.Type = a.Val
					}
				}
				if inForm {
					p.Fields = append(p.Fields, f)
				} else {
					p.Fields = append(p.Fields, FormField{Name: "\x00outside-form:" + f.Name, Value: f.Value, Type: f.Type})
				}
			case "script":
				var sb strings.Builder
				for c := n.FirstChild; c != nil; c = c.NextSibling {
					if c.Type == html.TextNode {
						sb.WriteString(c.Data)
					}
				}
				p.Scripts = append(p.Scripts, sb.String())
			}
		}
		for c := n.FirstChild; c != nil; c = c.NextSibling {
			walk(c, depth+1, inForm)
		}
	}
	walk(n, 0, false)
	return p, nil
}

// HTMLNewlineNorm applies the HTML input-stream preprocessing (CR LF and CR become LF).
func HTMLNewlineNorm(s string) string {
	s = strings.ReplaceAll(s, "\r\n", "\n")
	return strings.ReplaceAll(s, "\r", "\n")
}

// ---- redirect binding ------------------------------------------------------------------------

type RedirectParts struct {
	Base  string              // scheme://host/path as sent
	Raw   [][2]string         // raw (percent-encoded) key/value pairs in URL order
	ByKey map[string][]string // raw values by decoded key
	RawQ  string
}

// SplitRedirect splits the raw query string itself (no library decoding of values).
func SplitRedirect(u string) (*RedirectParts, error) {
	p := &RedirectParts{ByKey: map[string][]string{}}
	rest := u
	if i := strings.IndexByte(rest, '#'); i >= 0 {
		rest = rest[:i]
	}
	i := strings.IndexByte(rest, '?')
	if i < 0 {
		p.Base = rest
		return p, nil
	}
	p.Base, p.RawQ = rest[:i], rest[i+1:]
	for _, kv := range strings.Split(p.RawQ, "&") {
		if kv == "" {
			continue
		}
		k, v := kv, ""
		if j := strings.IndexByte(kv, '='); j >= 0 {
			k, v = kv[:j], kv[j+1:]
		}
		dk, err := url.QueryUnescape(k)
		if err != nil {
			return nil, err
		}
		p.Raw = append(p.Raw, [2]string{k, v})
		p.ByKey[dk] = append(p.ByKey[dk], v)
	}
	return p, nil
}

// InflateB64 reverses the redirect encoding of a message.
func InflateB64(s string) ([]byte, error) {
	b, err := base64.StdEncoding.DecodeString(s)
	if err != nil {
		return nil, err
	}
	return io.ReadAll(flate.NewReader(bytes.NewReader(b)))
}

// VerifyRaw verifies sig over msg with the public key of certDER directly (no dsig).
func VerifyRaw(certDER []byte, sigAlg string, msg, sig []byte) error {
	c, err := x509.ParseCertificate(certDER)
	if err != nil {
		return err
	}
	h := sigHashFor(sigAlg)
	if h == 0 {
		return fmt.Errorf("unknown SigAlg %q", sigAlg)
	}
	hs := h.New()
	hs.Write(msg)
	sum := hs.Sum(nil)
	switch pk := c.PublicKey.(type) {
	case *rsa.PublicKey:
		if !strings.Contains(sigAlg, "rsa-") {
			return fmt.Errorf("SigAlg %q does not match an RSA key", sigAlg)
		}
		return rsa.VerifyPKCS1v15(pk, h, sum, sig)
	case *ecdsa.PublicKey:
		if !strings.Contains(sigAlg, "ecdsa-") {
			return fmt.Errorf("SigAlg %q does not match an EC key", sigAlg)
		}
		if !ecdsa.VerifyASN1(pk, sum, sig) {
			return errors.New("ecdsa verification failed")
		}
		return nil
	}
	return errors.New("unsupported key")
}

var _ = crypto.SHA256

// Inflate decodes a raw DEFLATE stream.
func Inflate(b []byte) ([]byte, error) {
	return io.ReadAll(flate.NewReader(bytes.NewReader(b)))
}
