package world

import (
	"time"

	"github.com/jonboulle/clockwork"
	dsig "github.com/russellhaering/goxmldsig"
)

// SimClock is the only clock the service provider sees: simulated time plus the node's
// skew, rendered in the node's location. Only Now is implemented; the library calls
// nothing else (any other call panics through the nil embedded interface and is caught
// as a harness error).
type SimClock struct {
	clockwork.Clock
	NowFn func() time.Time
}

// Now keeps no state: it is called concurrently by the tasks of the concurrency engine.
func (c *SimClock) Now() time.Time { return c.NowFn() }

func (c *SimClock) Since(t time.Time) time.Duration { return c.NowFn().Sub(t) }

func (c *SimClock) Dsig() *dsig.Clock { return dsig.NewFakeClock(c) }
