package world

import (
	"crypto"
	"crypto/rand"
	"crypto/rsa"
	"crypto/sha1"
	"crypto/sha256"
	"crypto/sha512"
	"encoding/base64"
	stdxml "encoding/xml"
	"errors"
	"fmt"
	"hash"
	"strings"

	"github.com/beevik/etree"
	dsig "github.com/russellhaering/goxmldsig"
	"github.com/russellhaering/goxmldsig/etreeutils"

	"verifsim/core"
)

// SigOpts describes one enveloped signature the IdP stub makes. The stub assembles the
// signature itself (goxmldsig's SigningContext is too narrow for an IdP): SignedInfo is
// built as text, the digest is taken over the target exactly as a verifier derives it,
// the value is made with crypto/rsa or crypto/ecdsa.
type SigOpts struct {
	KeyIdx     int    // pool key that signs
	Cert       *Cert  // certificate put into KeyInfo (and the identity the signer claims)
	KeyInfo    bool   // include KeyInfo/X509Data
	C14N       string // CanonicalizationMethod of SignedInfo
	Transform  string // canonicalisation transform of the reference
	PrefixList string
	Digest     string
	SigAlg     string
	DSPrefix   string // "ds", "dsig" or "" (default namespace)
	EmptyURI   bool   // Reference URI="" instead of "#id"
	WrapCert   bool   // base64 certificate broken into 64-column lines
}

var C14NAlgs = []string{
	string(dsig.CanonicalXML10ExclusiveAlgorithmId),
	string(dsig.CanonicalXML10ExclusiveWithCommentsAlgorithmId),
	string(dsig.CanonicalXML11AlgorithmId),
	string(dsig.CanonicalXML11WithCommentsAlgorithmId),
	string(dsig.CanonicalXML10RecAlgorithmId),
	string(dsig.CanonicalXML10WithCommentsAlgorithmId),
}

var DigestAlgs = []string{
	"http://www.w3.org/2001/04/xmlenc#sha256",
	"http://www.w3.org/2000/09/xmldsig#sha1",
	"http://www.w3.org/2001/04/xmldsig-more#sha384",
	"http://www.w3.org/2001/04/xmlenc#sha512",
}

var RSASigAlgs = []string{
	dsig.RSASHA256SignatureMethod,
	dsig.RSASHA1SignatureMethod,
	dsig.RSASHA384SignatureMethod,
	dsig.RSASHA512SignatureMethod,
}

var ECSigAlgs = []string{
	dsig.ECDSASHA256SignatureMethod,
	dsig.ECDSASHA1SignatureMethod,
	dsig.ECDSASHA384SignatureMethod,
	dsig.ECDSASHA512SignatureMethod,
}

func digestFor(alg string) func() hash.Hash {
	switch alg {
	case DigestAlgs[0]:
		return sha256.New
	case DigestAlgs[1]:
		return sha1.New
	case DigestAlgs[2]:
		return sha512.New384
	case DigestAlgs[3]:
		return sha512.New
	}
	return nil
}

func sigHashFor(alg string) crypto.Hash {
	switch alg {
	case dsig.RSASHA1SignatureMethod, dsig.ECDSASHA1SignatureMethod:
		return crypto.SHA1
	case dsig.RSASHA256SignatureMethod, dsig.ECDSASHA256SignatureMethod:
		return crypto.SHA256
	case dsig.RSASHA384SignatureMethod, dsig.ECDSASHA384SignatureMethod:
		return crypto.SHA384
	case dsig.RSASHA512SignatureMethod, dsig.ECDSASHA512SignatureMethod:
		return crypto.SHA512
	}
	return 0
}

func CanonFor(alg, prefixList string) dsig.Canonicalizer {
	switch dsig.AlgorithmID(alg) {
	case dsig.CanonicalXML10ExclusiveAlgorithmId:
		return dsig.MakeC14N10ExclusiveCanonicalizerWithPrefixList(prefixList)
	case dsig.CanonicalXML10ExclusiveWithCommentsAlgorithmId:
		return dsig.MakeC14N10ExclusiveWithCommentsCanonicalizerWithPrefixList(prefixList)
	case dsig.CanonicalXML11AlgorithmId:
		return dsig.MakeC14N11Canonicalizer()
	case dsig.CanonicalXML11WithCommentsAlgorithmId:
		return dsig.MakeC14N11WithCommentsCanonicalizer()
	case dsig.CanonicalXML10RecAlgorithmId:
		return dsig.MakeC14N10RecCanonicalizer()
	case dsig.CanonicalXML10WithCommentsAlgorithmId:
		return dsig.MakeC14N10WithCommentsCanonicalizer()
	}
	return nil
}

// DrawSigOpts draws a signature style. keyIdx/cert are given by the caller.
func DrawSigOpts(t *core.Tape, keyIdx int, cert *Cert) *SigOpts {
	o := &SigOpts{KeyIdx: keyIdx, Cert: cert, KeyInfo: true}
	o.C14N = C14NAlgs[t.Int(len(C14NAlgs), "sig.c14n")]
	o.Transform = C14NAlgs[t.Int(len(C14NAlgs), "sig.transform")]
	if (o.Transform == C14NAlgs[0] || o.Transform == C14NAlgs[1]) && t.Chance(250, "sig.prefixlist") {
		o.PrefixList = []string{"xs", "xs xsi", "saml samlp xs", "#default xs"}[t.Int(4, "sig.prefixlist.v")]
	}
	o.Digest = DigestAlgs[t.Int(len(DigestAlgs), "sig.digest")]
	if Key(keyIdx).EC != nil {
		o.SigAlg = ECSigAlgs[t.Int(len(ECSigAlgs), "sig.alg")]
	} else {
		o.SigAlg = RSASigAlgs[t.Int(len(RSASigAlgs), "sig.alg")]
	}
	o.DSPrefix = []string{"ds", "dsig", ""}[t.Int(3, "sig.dsprefix")]
	o.EmptyURI = t.Chance(100, "sig.emptyuri")
	o.WrapCert = t.Chance(200, "sig.wrapcert")
	return o
}

func PlainSigOpts(keyIdx int, cert *Cert) *SigOpts {
	return &SigOpts{KeyIdx: keyIdx, Cert: cert, KeyInfo: true, C14N: C14NAlgs[0], Transform: C14NAlgs[0],
		Digest: DigestAlgs[0], SigAlg: RSASigAlgs[0], DSPrefix: "ds"}
}

func (o *SigOpts) Sig() string {
	ix := func(xs []string, v string) int {
		for i, x := range xs {
			if x == v {
				return i
			}
		}
		return -1
	}
	return fmt.Sprintf("S%d%d%d%d.%v%v%v.%s.%d", ix(C14NAlgs, o.C14N), ix(C14NAlgs, o.Transform), ix(DigestAlgs, o.Digest),
		ix(RSASigAlgs, o.SigAlg)+ix(ECSigAlgs, o.SigAlg)+1, o.KeyInfo, o.EmptyURI, o.PrefixList != "", o.DSPrefix, o.KeyIdx)
}

func wrap64(s string) string {
	var b strings.Builder
	for len(s) > 64 {
		b.WriteString(s[:64] + "\n")
		s = s[64:]
	}
	b.WriteString(s)
	return b.String()
}

func parseDoc(text string) (*etree.Document, error) {
	d := etree.NewDocument()
	if err := d.ReadFromString(text); err != nil {
		return nil, err
	}
	if d.Root() == nil {
		return nil, errors.New("no root")
	}
	return d, nil
}

func StripSlots(text string) string {
	for {
		i := strings.IndexByte(text, 0)
		if i < 0 {
			return text
		}
		j := strings.IndexByte(text[i+1:], 0)
		if j < 0 {
			return text
		}
		text = text[:i] + text[i+1+j+1:]
	}
}

// findByID locates the element with the given ID among the root and its children.
func findByID(d *etree.Document, id string) *etree.Element {
	root := d.Root()
	if PlainAttr(root, "ID") == id {
		return root
	}
	for _, c := range root.ChildElements() {
		if PlainAttr(c, "ID") == id {
			return c
		}
	}
	return nil
}

// PlainAttr returns the value of the attribute key that is in no namespace (etree's SelectAttrValue
// would also return x:key or xmlns:key).
func PlainAttr(e *etree.Element, key string) string {
	for _, a := range e.Attr {
		if a.Space == "" && a.Key == key {
			return a.Value
		}
	}
	return ""
}

func detachView(d *etree.Document, el *etree.Element) (*etree.Element, error) {
	if el == d.Root() {
		return el.Copy(), nil
	}
	ctx, err := etreeutils.NSBuildParentContext(el)
	if err != nil {
		return nil, err
	}
	return etreeutils.NSDetatch(ctx, el)
}

// SignSlot replaces the signature placeholder of element id in text by a complete
// enveloped signature. Other placeholders are left in place (and ignored while parsing).
func SignSlot(text, id string, o *SigOpts) (string, error) {
	slot := SigSlot(id)
	if !strings.Contains(text, slot) {
		return "", fmt.Errorf("no signature slot for %q", id)
	}
	// 1. digest over the target as the verifier will see it once the signature is removed
	d0, err := parseDoc(StripSlots(text))
	if err != nil {
		return "", fmt.Errorf("render does not parse: %v", err)
	}
	tgt := findByID(d0, id)
	if tgt == nil {
		return "", fmt.Errorf("target %q not found", id)
	}
	view, err := detachView(d0, tgt)
	if err != nil {
		return "", err
	}
	canon := CanonFor(o.Transform, o.PrefixList)
	cb, err := canon.Canonicalize(view)
	if err != nil {
		return "", err
	}
	hf := digestFor(o.Digest)
	h := hf()
	h.Write(cb)
	dv := base64.StdEncoding.EncodeToString(h.Sum(nil))

	// 2. signature element text with an empty SignatureValue
	p := o.DSPrefix
	pc := ""
	nsdecl := ` xmlns="` + NSDsig + `"`
	if p != "" {
		pc = p + ":"
		nsdecl = ` xmlns:` + p + `="` + NSDsig + `"`
	}
	uri := "#" + id
	if o.EmptyURI {
		uri = ""
	}
	var sb strings.Builder
	sb.WriteString(`<` + pc + `Signature` + nsdecl + `><` + pc + `SignedInfo><` + pc + `CanonicalizationMethod Algorithm="` + o.C14N + `"/><` + pc + `SignatureMethod Algorithm="` + o.SigAlg + `"/>`)
	sb.WriteString(`<` + pc + `Reference URI="` + uri + `"><` + pc + `Transforms><` + pc + `Transform Algorithm="` + string(dsig.EnvelopedSignatureAltorithmId) + `"/><` + pc + `Transform Algorithm="` + o.Transform + `"`)
	if o.PrefixList != "" {
		sb.WriteString(`><ec:InclusiveNamespaces xmlns:ec="http://www.w3.org/2001/10/xml-exc-c14n#" PrefixList="` + o.PrefixList + `"/></` + pc + `Transform>`)
	} else {
		sb.WriteString(`/>`)
	}
	sb.WriteString(`</` + pc + `Transforms><` + pc + `DigestMethod Algorithm="` + o.Digest + `"/><` + pc + `DigestValue>` + dv + `</` + pc + `DigestValue></` + pc + `Reference></` + pc + `SignedInfo>`)
	const svMark = "\x00SV\x00"
	sb.WriteString(`<` + pc + `SignatureValue>` + svMark + `</` + pc + `SignatureValue>`)
	if o.KeyInfo {
		c := base64.StdEncoding.EncodeToString(o.Cert.DER)
		if o.WrapCert {
			c = wrap64(c)
		}
		sb.WriteString(`<` + pc + `KeyInfo><` + pc + `X509Data><` + pc + `X509Certificate>` + c + `</` + pc + `X509Certificate></` + pc + `X509Data></` + pc + `KeyInfo>`)
	}
	sb.WriteString(`</` + pc + `Signature>`)
	text1 := strings.Replace(text, slot, sb.String(), 1)

	// 3. canonical SignedInfo as the verifier derives it from the document in context
	d1, err := parseDoc(StripSlots(text1))
	if err != nil {
		return "", err
	}
	tgt1 := findByID(d1, id)
	view1, err := detachView(d1, tgt1)
	if err != nil {
		return "", err
	}
	var sigEl *etree.Element
	for _, c := range view1.ChildElements() {
		if c.Tag == "Signature" {
			sigEl = c
		}
	}
	if sigEl == nil {
		return "", errors.New("signature not found after splice")
	}
	si := sigEl.ChildElements()[0]
	nctx, err := etreeutils.NSBuildParentContext(si)
	if err != nil {
		return "", err
	}
	dsi, err := etreeutils.NSDetatch(nctx, si)
	if err != nil {
		return "", err
	}
	sib, err := CanonFor(o.C14N, "").Canonicalize(dsi)
	if err != nil {
		return "", err
	}
	hh := sigHashFor(o.SigAlg)
	hs := hh.New()
	hs.Write(sib)
	sum := hs.Sum(nil)
	k := Key(o.KeyIdx)
	var raw []byte
	if k.RSA != nil {
		raw, err = rsa.SignPKCS1v15(nil, k.RSA, hh, sum)
	} else {
		raw, err = k.EC.Sign(rand.Reader, sum, hh) // ASN.1, as goxmldsig's verifier expects
	}
	if err != nil {
		return "", err
	}
	return strings.Replace(text1, svMark, base64.StdEncoding.EncodeToString(raw), 1), nil
}

// SelfCheck verifies with goxmldsig directly that element id of text carries a
// signature that validates under cert at time now. A failure means the layout is outside
// what the dependency supports (harness matter, never a violation).
func SelfCheck(text, id string, cert *Cert, clk *dsig.Clock) error {
	d, err := parseDoc(text)
	if err != nil {
		return err
	}
	tgt := findByID(d, id)
	if tgt == nil {
		return errors.New("selfcheck: target missing")
	}
	view, err := detachView(d, tgt)
	if err != nil {
		return err
	}
	vc := dsig.NewDefaultValidationContext(&dsig.MemoryX509CertificateStore{Roots: nil})
	vc.CertificateStore = certStoreOf(cert)
	vc.Clock = clk
	_, err = vc.Validate(view)
	return err
}

// AppDecode is how the simulated application decodes a message into one of the library's types when it
// calls an exported Validate* entry directly: encoding/xml matches attributes by local name only, so a
// careful application first drops the attributes that are in a foreign namespace (x500:Recipient is not
// the SAML Recipient). Character data is written back with CR escaped, as the library does.
func AppDecode(raw string, v any) error {
	d := etree.NewDocument()
	if err := d.ReadFromString(raw); err != nil {
		return err
	}
	if d.Root() == nil {
		return stdxml.Unmarshal([]byte(raw), v)
	}
	var walk func(e *etree.Element)
	walk = func(e *etree.Element) {
		kept := e.Attr[:0]
		for _, a := range e.Attr {
			if a.Space == "" || a.Space == "xmlns" {
				kept = append(kept, a)
			}
		}
		e.Attr = kept
		for _, c := range e.ChildElements() {
			walk(c)
		}
	}
	walk(d.Root())
	d.WriteSettings.CanonicalText = true
	d.WriteSettings.CanonicalAttrVal = true
	b, err := d.WriteToBytes()
	if err != nil {
		return err
	}
	return stdxml.Unmarshal(b, v)
}
