package world

import (
	"crypto/rsa"
	"fmt"
	"regexp"
	"strings"

	"github.com/beevik/etree"

	"verifsim/core"
)

// Adversary is the byzantine part of the transport: it builds each delivered message
// from the history of genuine messages seen so far plus its own key material.
type Adversary struct {
	KeyIdx int
	Cert   *Cert
	SPPub  *rsa.PublicKey // the SP's public encryption key (anyone can encrypt to it)
	SPCert []byte
}

type Attack struct {
	Op     string
	Detail string
	XML    string
	// Benign is true when the operator leaves every signed unit intact and in place, so
	// acceptance is legitimate (the conservation oracle still applies).
	Benign bool
	// EncNotAssertion: the EncryptedAssertion this operator added decrypts to something that
	// is not an assertion (so it is not an assertion the message "carries").
	EncNotAssertion bool
}

var AttackOps = []string{
	"replay", "strip_response_signature", "strip_all_signatures", "edit_unsigned_field", "edit_signed_field",
	"resign_attacker_key", "trusted_cert_foreign_key", "drop_keyinfo", "wrap", "splice", "duplicate_element",
	"shadow_attribute", "comment_inject", "ns_rebind", "relocate_signature", "evil_sibling", "nest_in_response",
	"attacker_encrypt", "cdata_inject", "swap_signature_values",
	"root_id_collision", "keyinfo_swap", "duplicate_signature", "doctype_entity", "attacker_signed_sibling", "whitespace_in_signed",
	"result_field_injection", "nsdecl_named_like_attribute", "resign_lookalike_cert",
}

func el(doc *etree.Document) *etree.Element { return doc.Root() }

func childrenByTag(e *etree.Element, tag string) []*etree.Element {
	var out []*etree.Element
	for _, c := range e.ChildElements() {
		if c.Tag == tag {
			out = append(out, c)
		}
	}
	return out
}

func firstByTag(e *etree.Element, tag string) *etree.Element {
	cs := childrenByTag(e, tag)
	if len(cs) == 0 {
		return nil
	}
	return cs[0]
}

func descend(e *etree.Element, tags ...string) *etree.Element {
	for _, t := range tags {
		if e == nil {
			return nil
		}
		e = firstByTag(e, t)
	}
	return e
}

func removeSig(e *etree.Element) *etree.Element {
	for _, c := range childrenByTag(e, "Signature") {
		e.RemoveChild(c)
		return c
	}
	return nil
}

func docString(d *etree.Document) string {
	s, err := d.WriteToString()
	if err != nil {
		return ""
	}
	return s
}

// prefixFor returns the prefix (with colon) bound to ns on e or an ancestor.
func prefixFor(e *etree.Element, ns string) (string, bool) {
	for x := e; x != nil; x = x.Parent() {
		for _, a := range x.Attr {
			if a.Value == ns {
				if a.Space == "xmlns" {
					return a.Key + ":", true
				}
				if a.Space == "" && a.Key == "xmlns" {
					return "", true
				}
			}
		}
	}
	return "", false
}

// evilise changes what an attacker wants changed: the subject and an attribute.
func evilise(a *etree.Element, t *core.Tape) string {
	what := t.Int(4, "adv.evil")
	switch what {
	case 1:
		if at := descend(a, "AttributeStatement", "Attribute", "AttributeValue"); at != nil {
			at.SetText("admin")
			return "attribute"
		}
	case 2:
		if c := firstByTag(a, "Conditions"); c != nil {
			c.CreateAttr("NotOnOrAfter", "2099-01-01T00:00:00Z")
			if sc := descend(a, "Subject", "SubjectConfirmation", "SubjectConfirmationData"); sc != nil {
				sc.CreateAttr("NotOnOrAfter", "2099-01-01T00:00:00Z")
			}
			return "validity"
		}
	case 3:
		if au := firstByTag(a, "AuthnStatement"); au != nil {
			au.CreateAttr("SessionIndex", "evil-session")
			return "session"
		}
	}
	if n := descend(a, "Subject", "NameID"); n != nil {
		n.SetText("mallory")
		return "nameid"
	}
	return "none"
}

func evilCopy(a *etree.Element, idMode int, t *core.Tape) (*etree.Element, string) {
	e := a.Copy()
	removeSig(e)
	// the forged copy stays small whatever the size of the genuine one
	if as := firstByTag(e, "AttributeStatement"); as != nil {
		for _, at := range childrenByTag(as, "Attribute") {
			if len(at.ChildElements()) > 50 {
				as.RemoveChild(at)
			}
		}
	}
	desc := ""
	switch idMode {
	case 0: // same ID
		desc = "id=same"
	case 1:
		e.CreateAttr("ID", "_evil"+fmt.Sprint(t.Int(9, "adv.evilid")))
		desc = "id=new"
	default:
		e.RemoveAttr("ID")
		desc = "id=none"
	}
	return e, desc + "," + evilise(e, t)
}

// Build applies operator op to the history. ok=false means the operator does not apply
// to this history (e.g. no assertion-signed message to wrap).
func (ad *Adversary) Build(t *core.Tape, op string, hist []IssuedMsg) (*Attack, bool) {
	if len(hist) == 0 {
		return nil, false
	}
	pick := func(label string, pred func(m *IssuedMsg) bool) *IssuedMsg {
		var c []*IssuedMsg
		for i := range hist {
			if pred == nil || pred(&hist[i]) {
				c = append(c, &hist[i])
			}
		}
		if len(c) == 0 {
			return nil
		}
		return c[t.Int(len(c), label)]
	}
	isResp := func(m *IssuedMsg) bool { return m.Logical.Kind == "Response" && len(m.Logical.Assertions) > 0 }
	plainAssertions := func(m *IssuedMsg) bool {
		if !isResp(m) {
			return false
		}
		for _, a := range m.Logical.Assertions {
			if a.Encrypt != nil {
				return false
			}
		}
		return true
	}
	aSigned := func(m *IssuedMsg) bool { return plainAssertions(m) && m.Logical.Assertions[0].Sign != nil }
	rSigned := func(m *IssuedMsg) bool { return plainAssertions(m) && m.Logical.Sign != nil }
	rOnly := func(m *IssuedMsg) bool { return rSigned(m) && m.Logical.Assertions[0].Sign == nil }
	parse := func(m *IssuedMsg) *etree.Document {
		d, err := parseDoc(m.XML)
		if err != nil {
			return nil
		}
		return d
	}
	atk := &Attack{Op: op}
	switch op {
	case "replay":
		m := pick("adv.msg", nil)
		atk.XML, atk.Benign = m.XML, true
		return atk, true

	case "strip_response_signature":
		m := pick("adv.msg", rSigned)
		if m == nil {
			return nil, false
		}
		d := parse(m)
		removeSig(el(d))
		if t.Bool("adv.alsoedit") {
			el(d).CreateAttr("InResponseTo", "_attacker")
			atk.Detail = "edit InResponseTo"
		}
		atk.XML = docString(d)
		atk.Benign = true // whatever remains signed is still signed in place
		return atk, true

	case "strip_all_signatures":
		m := pick("adv.msg", plainAssertions)
		if m == nil {
			return nil, false
		}
		d := parse(m)
		removeSig(el(d))
		for _, a := range childrenByTag(el(d), "Assertion") {
			removeSig(a)
			if t.Bool("adv.evilise") {
				atk.Detail += evilise(a, t) + " "
			}
		}
		atk.XML = docString(d)
		return atk, true

	case "edit_unsigned_field":
		m := pick("adv.msg", func(m *IssuedMsg) bool { return aSigned(m) && m.Logical.Sign == nil })
		if m == nil {
			return nil, false
		}
		d := parse(m)
		switch t.Int(3, "adv.field") {
		case 0:
			el(d).CreateAttr("InResponseTo", "_attacker")
		case 1:
			el(d).CreateAttr("ID", "_attacker_id")
		default:
			el(d).CreateAttr("IssueInstant", "2031-05-05T05:05:05Z")
		}
		atk.XML, atk.Benign = docString(d), true
		return atk, true

	case "edit_signed_field":
		m := pick("adv.msg", plainAssertions)
		if m == nil {
			return nil, false
		}
		d := parse(m)
		as := childrenByTag(el(d), "Assertion")
		a := as[t.Int(len(as), "adv.which")]
		atk.Detail = evilise(a, t)
		atk.XML = docString(d)
		return atk, true

	case "resign_attacker_key", "trusted_cert_foreign_key", "resign_lookalike_cert":
		m := pick("adv.msg", plainAssertions)
		if m == nil {
			return nil, false
		}
		lm := *m.Logical
		var as []*LAssertion
		cert := ad.Cert
		if op == "trusted_cert_foreign_key" || op == "resign_lookalike_cert" {
			// embed the genuine certificate, sign with the attacker's key
			for _, o := range []*SigOpts{m.Logical.Sign, m.Logical.Assertions[0].Sign} {
				if o != nil {
					cert = o.Cert
				}
			}
			if op == "resign_lookalike_cert" {
				// ... or rather a certificate of the attacker's key that copies every name, number and
				// identifier of the genuine one
				cert = MintLookalike(cert, ad.KeyIdx)
			}
		}
		place := t.Int(3, "adv.place")
		for _, a := range m.Logical.Assertions {
			ca := *a
			ca.NameID = sp("mallory")
			ca.Sign = nil
			if place != 0 {
				ca.Sign = PlainSigOpts(ad.KeyIdx, cert)
			}
			as = append(as, &ca)
		}
		lm.Assertions = as
		lm.Sign = nil
		if place != 1 {
			lm.Sign = PlainSigOpts(ad.KeyIdx, cert)
		}
		scratch := &IdP{Name: "atk"}
		x, err := scratch.Issue(&lm, m.Layout, 0)
		if err != nil {
			return nil, false
		}
		atk.XML, atk.Detail = x, fmt.Sprintf("place=%d", place)
		return atk, true

	case "drop_keyinfo":
		m := pick("adv.msg", plainAssertions)
		if m == nil {
			return nil, false
		}
		d := parse(m)
		n := 0
		for _, s := range el(d).FindElements("//Signature") {
			if k := firstByTag(s, "KeyInfo"); k != nil {
				s.RemoveChild(k)
				n++
			}
		}
		if n == 0 {
			return nil, false
		}
		atk.XML = docString(d)
		atk.Benign = true // honoured iff the store has exactly one member: C02's rule, conservation still applies
		return atk, true

	case "wrap":
		// the XSW catalogue: original moved somewhere, evil copy takes its place
		target := t.Int(2, "adv.wrap.target") // 0 assertion-signed victim, 1 response-signed victim
		idMode := t.Int(3, "adv.wrap.id")
		where := t.Int(6, "adv.wrap.where")
		if target == 0 {
			m := pick("adv.msg", aSigned)
			if m == nil {
				return nil, false
			}
			d := parse(m)
			root := el(d)
			a := firstByTag(root, "Assertion")
			ev, desc := evilCopy(a, idMode, t)
			pa, _ := prefixFor(a, NSAssertion)
			pp, _ := prefixFor(root, NSProtocol)
			switch where {
			case 0: // evil before genuine
				root.InsertChildAt(a.Index(), ev)
				desc += ",evil-before"
			case 1: // evil after genuine
				root.AddChild(ev)
				desc += ",evil-after"
			case 2: // genuine inside evil's Advice
				root.RemoveChild(a)
				adv := ev.CreateElement(pa + "Advice")
				adv.AddChild(a)
				root.AddChild(ev)
				desc += ",orig-in-advice"
			case 3: // signature moved to evil, genuine inside ds:Object of that signature
				sig := removeSig(a)
				if sig == nil {
					return nil, false
				}
				root.RemoveChild(a)
				ps := sig.Space
				if ps != "" {
					ps += ":"
				}
				obj := sig.CreateElement(ps + "Object")
				obj.AddChild(a)
				ev.InsertChildAt(1, sig)
				root.AddChild(ev)
				desc += ",sig-in-evil,orig-in-object"
			case 4: // genuine inside Extensions of the response, evil as direct child
				root.RemoveChild(a)
				ext := etree.NewElement(pp + "Extensions")
				ext.AddChild(a)
				root.InsertChildAt(1, ext)
				root.AddChild(ev)
				desc += ",orig-in-extensions"
			default: // evil keeps the genuine signature element verbatim (digest will not match)
				sig := firstByTag(a, "Signature")
				if sig != nil {
					ev.InsertChildAt(1, sig.Copy())
				}
				root.RemoveChild(a)
				root.AddChild(ev)
				desc += ",evil-with-copied-signature"
			}
			atk.XML, atk.Detail = docString(d), "A-signed,"+desc
			return atk, true
		}
		m := pick("adv.msg", rSigned)
		if m == nil {
			return nil, false
		}
		d := parse(m)
		root := el(d)
		pp, _ := prefixFor(root, NSProtocol)
		ev := root.Copy()
		sig := removeSig(ev)
		switch idMode {
		case 1:
			ev.CreateAttr("ID", "_evilroot")
		case 2:
			ev.RemoveAttr("ID")
		}
		desc := fmt.Sprintf("R-signed,id=%d", idMode)
		if a := firstByTag(ev, "Assertion"); a != nil {
			desc += "," + evilise(a, t)
		}
		switch where % 3 {
		case 0: // evil root wraps the original inside Extensions
			ext := etree.NewElement(pp + "Extensions")
			ext.AddChild(root.Copy())
			ev.InsertChildAt(1, ext)
			desc += ",orig-in-extensions"
		case 1: // signature stays in the evil root, original (without signature) inside ds:Object
			orig := root.Copy()
			removeSig(orig)
			if sig == nil {
				return nil, false
			}
			ps := sig.Space
			if ps != "" {
				ps += ":"
			}
			obj := sig.CreateElement(ps + "Object")
			obj.AddChild(orig)
			ev.InsertChildAt(1, sig)
			desc += ",sig-in-evil,orig-in-object"
		default: // original appended as last child of the evil root
			ev.AddChild(root.Copy())
			desc += ",orig-as-child"
		}
		d2 := etree.NewDocument()
		d2.SetRoot(ev)
		atk.XML, atk.Detail = docString(d2), desc
		return atk, true

	case "splice":
		mode := t.Int(3, "adv.splice.mode")
		switch mode {
		case 0: // assertion covered only by a Response signature cut into an unsigned response
			m := pick("adv.msg", rOnly)
			if m == nil {
				return nil, false
			}
			d := parse(m)
			removeSig(el(d))
			el(d).CreateAttr("ID", "_spliced")
			atk.XML, atk.Detail = docString(d), "r-only assertion in unsigned response"
			return atk, true
		case 1: // signed assertion from one message into another message's (signed) response
			src := pick("adv.src", aSigned)
			dst := pick("adv.dst", rSigned)
			if src == nil || dst == nil || src == dst {
				return nil, false
			}
			ds, dd := parse(src), parse(dst)
			a := firstByTag(el(ds), "Assertion")
			view, err := detachView(ds, a)
			if err != nil {
				return nil, false
			}
			if old := firstByTag(el(dd), "Assertion"); old != nil && t.Bool("adv.splice.replace") {
				el(dd).RemoveChild(old)
			}
			el(dd).AddChild(view)
			atk.XML, atk.Detail = docString(dd), "signed assertion into other signed response"
			return atk, true
		default: // genuine signed assertion kept, response-level fields of another genuine message
			src := pick("adv.src", func(m *IssuedMsg) bool { return aSigned(m) && m.Logical.Sign == nil })
			if src == nil {
				return nil, false
			}
			d := parse(src)
			ev, desc := evilCopy(firstByTag(el(d), "Assertion"), 1, t)
			el(d).AddChild(ev)
			atk.XML, atk.Detail = docString(d), "unsigned evil beside signed: "+desc
			return atk, true
		}

	case "evil_sibling":
		// an unsigned forged assertion next to a genuinely signed one (either order)
		m := pick("adv.msg", func(m *IssuedMsg) bool { return aSigned(m) && m.Logical.Sign == nil })
		if m == nil {
			return nil, false
		}
		d := parse(m)
		a := firstByTag(el(d), "Assertion")
		ev, desc := evilCopy(a, 1+t.Int(2, "adv.id"), t)
		// the forged assertion sits directly under the Response, or inside a wrapper next to the genuine one
		// (an unsigned Response must not be accepted while it carries an unsigned assertion anywhere)
		var holder *etree.Element = ev
		pp, _ := prefixFor(el(d), NSProtocol)
		pa, _ := prefixFor(a, NSAssertion)
		switch t.Int(4, "adv.sibling.wrap") {
		case 1:
			holder = etree.NewElement(pp + "Extensions")
			holder.AddChild(ev)
			desc += ",inside-extensions"
		case 2:
			holder = etree.NewElement("w:Wrapper")
			holder.CreateAttr("xmlns:w", "urn:wrapper")
			holder.AddChild(ev)
			desc += ",inside-foreign-wrapper"
		case 3:
			holder = etree.NewElement(pa + "Advice")
			if pa == "" {
				holder.CreateAttr("xmlns", NSAssertion)
			}
			holder.AddChild(ev)
			desc += ",inside-bare-advice"
		}
		if t.Bool("adv.first") {
			el(d).InsertChildAt(a.Index(), holder)
			desc += ",evil-first"
		} else {
			el(d).AddChild(holder)
		}
		atk.XML, atk.Detail = docString(d), desc
		return atk, true

	case "nest_in_response":
		// genuine signed assertion under a nested element that is itself called Response
		m := pick("adv.msg", func(m *IssuedMsg) bool { return aSigned(m) && m.Logical.Sign == nil })
		if m == nil {
			return nil, false
		}
		d := parse(m)
		root := el(d)
		a := firstByTag(root, "Assertion")
		pp, _ := prefixFor(root, NSProtocol)
		root.RemoveChild(a)
		wname := []string{"Response", "Extensions", "Assertion"}[t.Int(3, "adv.nest.name")]
		var w *etree.Element
		if wname == "Assertion" {
			pa, _ := prefixFor(a, NSAssertion)
			w = etree.NewElement(pa + "Assertion")
			if pa == "" {
				w.CreateAttr("xmlns", NSAssertion)
			} else if _, ok := prefixFor(root, NSAssertion); !ok {
				w.CreateAttr("xmlns:"+strings.TrimSuffix(pa, ":"), NSAssertion)
			}
		} else {
			w = etree.NewElement(pp + wname)
		}
		w.AddChild(a)
		if t.Bool("adv.nest.deeper") {
			ext := etree.NewElement(pp + "Extensions")
			ext.AddChild(w)
			w = ext
		}
		root.AddChild(w)
		atk.XML, atk.Detail = docString(d), "genuine under nested "+wname
		return atk, true

	case "duplicate_element":
		m := pick("adv.msg", plainAssertions)
		if m == nil {
			return nil, false
		}
		d := parse(m)
		a := firstByTag(el(d), "Assertion")
		which := t.Int(4, "adv.dup")
		var tgt *etree.Element
		switch which {
		case 0:
			tgt = descend(a, "Subject")
		case 1:
			tgt = descend(a, "Subject", "NameID")
		case 2:
			tgt = descend(a, "Conditions")
		default:
			tgt = descend(a, "Issuer")
		}
		if tgt == nil {
			return nil, false
		}
		c := tgt.Copy()
		if n := c.FindElement(".//NameID"); n != nil {
			n.SetText("mallory")
		} else if c.Tag == "NameID" {
			c.SetText("mallory")
		}
		p := tgt.Parent()
		if t.Bool("adv.dup.first") {
			p.InsertChildAt(tgt.Index(), c)
		} else {
			p.InsertChildAt(tgt.Index()+1, c)
		}
		atk.XML, atk.Detail = docString(d), "dup "+tgt.Tag
		return atk, true

	case "shadow_attribute":
		m := pick("adv.msg", plainAssertions)
		if m == nil {
			return nil, false
		}
		x := m.XML
		a := m.Logical.Assertions[0]
		needle := `ID="` + a.ID + `"`
		if !strings.Contains(x, needle) {
			needle = `ID='` + a.ID + `'`
		}
		if !strings.Contains(x, needle) {
			return nil, false
		}
		sh := []string{` xmlns:x="urn:x" x:ID="_evil"`, ` xmlns:x="urn:x" x:Version="1.0"`, ` xmlns:x="urn:x" x:IssueInstant="2099-01-01T00:00:00Z"`}[t.Int(3, "adv.shadow")]
		if t.Bool("adv.shadow.before") {
			x = strings.Replace(x, " "+needle, sh+" "+needle, 1)
		} else {
			x = strings.Replace(x, needle, needle+sh, 1)
		}
		atk.XML, atk.Detail = x, sh
		return atk, true

	case "comment_inject", "cdata_inject":
		m := pick("adv.msg", plainAssertions)
		if m == nil {
			return nil, false
		}
		d := parse(m)
		n := descend(firstByTag(el(d), "Assertion"), "Subject", "NameID")
		if n == nil {
			return nil, false
		}
		txt := n.Text()
		if len(txt) < 2 {
			return nil, false
		}
		cut := 1 + t.Int(len(txt)-1, "adv.cut")
		for len(n.Child) > 0 {
			n.RemoveChildAt(0)
		}
		n.AddChild(etree.NewText(txt[:cut]))
		if op == "comment_inject" {
			n.AddChild(etree.NewComment("x"))
		} else {
			n.AddChild(etree.NewCData(""))
		}
		n.AddChild(etree.NewText(txt[cut:]))
		atk.XML, atk.Detail = docString(d), fmt.Sprintf("cut=%d", cut)
		atk.Benign = true // canonicalisation without comments makes this invisible to the signature; value must stay whole
		return atk, true

	case "ns_rebind":
		// an evil assertion whose prefix is bound to another namespace on the element itself
		m := pick("adv.msg", func(m *IssuedMsg) bool { return aSigned(m) && m.Logical.Sign == nil })
		if m == nil {
			return nil, false
		}
		d := parse(m)
		a := firstByTag(el(d), "Assertion")
		ev, desc := evilCopy(a, 1, t)
		pa, _ := prefixFor(a, NSAssertion)
		if pa == "" {
			return nil, false
		}
		// the genuine one is re-bound to a foreign namespace at the Response level copy, evil stays SAML
		wrapper := etree.NewElement("w:Wrapper")
		wrapper.CreateAttr("xmlns:w", "urn:wrapper")
		el(d).RemoveChild(a)
		wrapper.AddChild(a)
		el(d).AddChild(wrapper)
		el(d).AddChild(ev)
		atk.XML, atk.Detail = docString(d), "genuine under foreign wrapper; "+desc
		return atk, true

	case "relocate_signature":
		// the Response signature moved into the assertion (or the assertion's into the response)
		m := pick("adv.msg", plainAssertions)
		if m == nil {
			return nil, false
		}
		d := parse(m)
		root := el(d)
		a := firstByTag(root, "Assertion")
		if s := removeSig(root); s != nil {
			a.InsertChildAt(1, s)
			atk.Detail = "response signature into assertion"
		} else if s := removeSig(a); s != nil {
			root.InsertChildAt(1, s)
			atk.Detail = "assertion signature into response"
		} else {
			return nil, false
		}
		if t.Bool("adv.evilise") {
			atk.Detail += "," + evilise(a, t)
		}
		atk.XML = docString(d)
		return atk, true

	case "swap_signature_values":
		// two genuine signed assertions exchange their Signature elements
		m := pick("adv.msg", func(m *IssuedMsg) bool { return aSigned(m) && len(m.Logical.Assertions) >= 2 })
		if m == nil {
			return nil, false
		}
		d := parse(m)
		as := childrenByTag(el(d), "Assertion")
		s0, s1 := removeSig(as[0]), removeSig(as[1])
		if s0 == nil || s1 == nil {
			return nil, false
		}
		as[0].InsertChildAt(1, s1)
		as[1].InsertChildAt(1, s0)
		atk.XML, atk.Detail = docString(d), "signatures exchanged"
		return atk, true

	case "root_id_collision":
		// the unsigned Response takes the ID of its signed assertion (the nested signature then
		// "references the root" by ID); optionally with an evil sibling
		m := pick("adv.msg", func(m *IssuedMsg) bool { return aSigned(m) && m.Logical.Sign == nil })
		if m == nil {
			return nil, false
		}
		d := parse(m)
		root := el(d)
		a := firstByTag(root, "Assertion")
		root.CreateAttr("ID", a.SelectAttrValue("ID", ""))
		if t.Bool("adv.collide.evil") {
			ev, desc := evilCopy(a, 1, t)
			root.InsertChildAt(a.Index(), ev)
			atk.Detail = desc
		}
		atk.XML = docString(d)
		return atk, true

	case "keyinfo_swap":
		// the certificate in KeyInfo replaced by another one (the attacker's)
		m := pick("adv.msg", plainAssertions)
		if m == nil {
			return nil, false
		}
		d := parse(m)
		n := 0
		for _, c := range el(d).FindElements("//X509Certificate") {
			c.SetText(B64(ad.Cert.DER))
			n++
		}
		if n == 0 {
			return nil, false
		}
		if t.Bool("adv.evilise") {
			atk.Detail = evilise(firstByTag(el(d), "Assertion"), t)
		}
		atk.XML = docString(d)
		return atk, true

	case "duplicate_signature":
		// two Signature children: the genuine one and an attacker's (either order), content edited
		m := pick("adv.msg", aSigned)
		if m == nil {
			return nil, false
		}
		lm := *m.Logical
		ca := *m.Logical.Assertions[0]
		ca.NameID, ca.Sign, ca.Encrypt = sp("mallory"), PlainSigOpts(ad.KeyIdx, ad.Cert), nil
		lm.Assertions = []*LAssertion{&ca}
		lm.Sign = nil
		scratch := &IdP{Name: "atk"}
		x, err := scratch.Issue(&lm, m.Layout, 0)
		if err != nil {
			return nil, false
		}
		ed, err := parseDoc(x)
		if err != nil {
			return nil, false
		}
		evilA := firstByTag(el(ed), "Assertion")
		d := parse(m)
		genuineSig := firstByTag(firstByTag(el(d), "Assertion"), "Signature")
		if evilA == nil || genuineSig == nil {
			return nil, false
		}
		view, err := detachView(d, genuineSig)
		if err != nil {
			return nil, false
		}
		if t.Bool("adv.dupsig.first") {
			evilA.InsertChildAt(1, view)
		} else {
			evilA.InsertChildAt(2, view)
		}
		root := el(d)
		root.RemoveChild(firstByTag(root, "Assertion"))
		removeSig(root)
		ev, _ := detachView(ed, evilA)
		root.AddChild(ev)
		atk.XML, atk.Detail = docString(d), "attacker signature + genuine signature on evil content"
		return atk, true

	case "doctype_entity":
		m := pick("adv.msg", plainAssertions)
		if m == nil {
			return nil, false
		}
		x := m.XML
		if strings.HasPrefix(x, "<?xml") {
			if i := strings.Index(x, "?>"); i > 0 {
				x = x[i+2:]
			}
		}
		mode := t.Int(3, "adv.doctype")
		switch mode {
		case 0:
			x = `<!DOCTYPE r [<!ENTITY e "mallory">]>` + x
		case 1:
			x = `<!DOCTYPE r [<!ENTITY e "mallory">]>` + strings.Replace(x, ">alice<", ">&e;<", 1)
		default:
			x = `<!DOCTYPE r SYSTEM "http://evil.example/x.dtd">` + x
		}
		atk.XML, atk.Detail = x, fmt.Sprintf("mode=%d", mode)
		return atk, true

	case "attacker_signed_sibling":
		// an assertion validly signed by the attacker's own key beside the genuine signed one
		m := pick("adv.msg", func(m *IssuedMsg) bool { return aSigned(m) && m.Logical.Sign == nil })
		if m == nil {
			return nil, false
		}
		lm := *m.Logical
		ca := *m.Logical.Assertions[0]
		ca.ID = "_atk" + fmt.Sprint(t.Int(9, "adv.id"))
		ca.NameID, ca.Sign, ca.Encrypt = sp("mallory"), PlainSigOpts(ad.KeyIdx, ad.Cert), nil
		lm.Assertions = []*LAssertion{&ca}
		scratch := &IdP{Name: "atk"}
		x, err := scratch.Issue(&lm, m.Layout, 0)
		if err != nil {
			return nil, false
		}
		ed, err := parseDoc(x)
		if err != nil {
			return nil, false
		}
		ev, err := detachView(ed, firstByTag(el(ed), "Assertion"))
		if err != nil {
			return nil, false
		}
		d := parse(m)
		a := firstByTag(el(d), "Assertion")
		if t.Bool("adv.first") {
			el(d).InsertChildAt(a.Index(), ev)
			atk.Detail = "attacker-signed first"
		} else {
			el(d).AddChild(ev)
			atk.Detail = "attacker-signed last"
		}
		atk.XML = docString(d)
		return atk, true

	case "whitespace_in_signed":
		// whitespace inserted into signed character data (changes the signed value)
		m := pick("adv.msg", plainAssertions)
		if m == nil {
			return nil, false
		}
		d := parse(m)
		n := descend(firstByTag(el(d), "Assertion"), "Subject", "NameID")
		if n == nil {
			return nil, false
		}
		n.SetText(n.Text() + []string{" ", "\n", "\t", "\u00a0"}[t.Int(4, "adv.ws")])
		atk.XML = docString(d)
		return atk, true

	case "nsdecl_named_like_attribute":
		// namespace declarations whose prefix is spelled like an attribute the decoder reads: exclusive
		// canonicalisation ignores them (unused prefixes), a sloppy decoder takes them for the attribute
		m := pick("adv.msg", plainAssertions)
		if m == nil {
			return nil, false
		}
		x := m.XML
		n := 0
		add := func(elem, decl string) {
			re := regexp.MustCompile(`<([A-Za-z0-9]+:)?` + elem + `\b`)
			if loc := re.FindStringIndex(x); loc != nil {
				x = x[:loc[1]] + " " + decl + x[loc[1]:]
				n++
			}
		}
		which := t.Int(5, "adv.nsdecl.which")
		if which == 0 || which == 4 {
			add("SubjectConfirmationData", `xmlns:NotOnOrAfter="2099-01-01T00:00:00Z" xmlns:Recipient="https://evil.example/acs"`)
		}
		if which == 1 || which == 4 {
			add("Conditions", `xmlns:NotOnOrAfter="2099-01-01T00:00:00Z" xmlns:NotBefore="1999-01-01T00:00:00Z"`)
		}
		if which == 2 || which == 4 {
			add("Assertion", `xmlns:ID="_evil" xmlns:Version="2.0"`)
		}
		if which == 3 || which == 4 {
			add("AuthnStatement", `xmlns:SessionIndex="evil-session"`)
			add("NameID", `xmlns:Format="urn:evil"`)
		}
		if n == 0 {
			return nil, false
		}
		atk.XML, atk.Detail = x, fmt.Sprintf("which=%d", which)
		atk.Benign = true // whatever is accepted must still equal a signed unit
		return atk, true

	case "result_field_injection":
		// attributes / children named after fields of the library's result structs that are
		// meant to be set by the library only (trust indicators)
		m := pick("adv.msg", plainAssertions)
		if m == nil {
			return nil, false
		}
		where := t.Int(4, "adv.inject.where")
		form := []string{` SignatureValidated="true"`, ` SignatureValidated="1"`, ` xmlns:sv="urn:x" sv:SignatureValidated="true"`, ` signaturevalidated="true"`}[t.Int(4, "adv.inject.form")]
		x := m.XML
		inject := func(id string) bool {
			for _, q := range []string{`"`, `'`} {
				needle := `ID=` + q + id + q
				if strings.Contains(x, needle) {
					x = strings.Replace(x, needle, needle+form, 1)
					return true
				}
			}
			return false
		}
		okAny := false
		if where == 0 || where == 2 {
			for _, a := range m.Logical.Assertions {
				okAny = inject(a.ID) || okAny
			}
		}
		if where == 1 || where == 2 {
			okAny = inject(m.Logical.ID) || okAny
		}
		if where == 3 {
			d := parse(m)
			for _, a := range childrenByTag(el(d), "Assertion") {
				pa, _ := prefixFor(a, NSAssertion)
				c := etree.NewElement(pa + "SignatureValidated")
				c.SetText("true")
				a.AddChild(c)
				okAny = true
			}
			x = docString(d)
		}
		if !okAny {
			return nil, false
		}
		atk.XML, atk.Detail = x, fmt.Sprintf("where=%d,form=%s", where, strings.TrimSpace(form))
		return atk, true

	case "attacker_encrypt":
		if ad.SPPub == nil {
			return nil, false
		}
		m := pick("adv.msg", plainAssertions)
		if m == nil {
			return nil, false
		}
		kind := t.Int(7, "adv.enc.kind")
		d := parse(m)
		root := el(d)
		a := firstByTag(root, "Assertion")
		view, err := detachView(d, a)
		if err != nil {
			return nil, false
		}
		var pt string
		keepGenuine := false
		switch kind {
		case 0: // forged unsigned assertion
			removeSig(view)
			evilise(view, t)
			pt = elString(view)
			atk.Detail = "forged-unsigned"
		case 1: // assertion signed by the attacker's own key
			lm := *m.Logical
			ca := *m.Logical.Assertions[0]
			ca.NameID, ca.Sign, ca.Encrypt = sp("mallory"), PlainSigOpts(ad.KeyIdx, ad.Cert), nil
			p := RenderAssertion(&ca, Layout{})
			p, err = SignSlot(p, ca.ID, ca.Sign)
			if err != nil {
				return nil, false
			}
			pt = StripSlots(p)
			_ = lm
			atk.Detail = "attacker-signed"
		case 2: // assertion cut out of a Response-signed message (no own signature)
			if m.Logical.Assertions[0].Sign != nil {
				removeSig(view)
			}
			pt = elString(view)
			atk.Detail = "cut-from-signed-response"
		case 5: // a genuine signed assertion re-encrypted by the attacker (anyone can encrypt to the SP)
			if m.Logical.Assertions[0].Sign == nil {
				return nil, false
			}
			pt = elString(view)
			atk.Detail = "genuine-signed-reencrypted"
		case 6: // a wrapper element with the genuine (signed) assertion somewhere inside
			wrap := []string{"saml:Advice", "saml:Evidence", "samlp:Extensions", "saml:AttributeValue"}[t.Int(4, "adv.enc.wrapper")]
			inner := elString(view)
			if i := strings.Index(inner, "?>"); strings.HasPrefix(inner, "<?xml") && i > 0 {
				inner = inner[i+2:]
			}
			pt = `<` + wrap + ` xmlns:saml="` + NSAssertion + `" xmlns:samlp="` + NSProtocol + `">`
			if t.Bool("adv.enc.wrapper.deep") {
				pt += `<saml:Advice>` + inner + `</saml:Advice>`
			} else {
				pt += inner
			}
			pt += `</` + wrap + `>`
			atk.Detail = "genuine-inside-wrapper:" + wrap
			atk.EncNotAssertion = true
		case 3: // not an assertion at all
			pt = `<saml:Advice xmlns:saml="` + NSAssertion + `"><saml:NameID>mallory</saml:NameID></saml:Advice>`
			atk.Detail = "non-assertion"
			atk.EncNotAssertion = true
		default:
			pt = "garbage \x01\x02<<<"
			atk.Detail = "garbage"
			atk.EncNotAssertion = true
		}
		eo := &EncOpts{DataAlg: DataAlgs[t.Int(len(DataAlgs), "adv.enc.data")], KeyAlg: KeyAlgs[t.Int(len(KeyAlgs), "adv.enc.key")], Recipient: ad.SPPub, Rand: t.SubRand("adv.enc.rand")}
		if t.Bool("adv.enc.embed") {
			eo.EmbedCert = ad.SPCert
		}
		ex, err := EncryptAssertion(eo, []byte(pt))
		if err != nil {
			return nil, false
		}
		exd, err := parseDoc(ex)
		if err != nil {
			return nil, false
		}
		placeSel := t.Int(4, "adv.enc.place")
		removeSig(root)
		if kind == 5 {
			// the genuine assertion travels encrypted; a forged plain sibling carries the same ID
			forged, fdesc := evilCopy(a, 0, t)
			root.RemoveChild(a)
			if t.Bool("adv.enc.forgedfirst") {
				root.AddChild(forged)
				root.AddChild(exd.Root())
				fdesc += ",forged-first"
			} else {
				root.AddChild(exd.Root())
				root.AddChild(forged)
			}
			atk.Detail += ",same-id-forged-sibling," + fdesc
			atk.XML = docString(d)
			return atk, true
		}
		if placeSel != 1 {
			root.RemoveChild(a)
		} else {
			keepGenuine = aSigned(m)
		}
		pp, _ := prefixFor(root, NSProtocol)
		switch placeSel {
		case 0, 1: // directly under the (now unsigned) response, alone or beside the genuine assertion
			if t.Bool("adv.enc.first") && keepGenuine {
				root.InsertChildAt(a.Index(), exd.Root())
			} else {
				root.AddChild(exd.Root())
			}
			atk.Detail += ",direct"
			if placeSel == 1 {
				atk.Detail += ",beside-genuine"
			}
		case 2: // nested deeper
			ext := etree.NewElement(pp + "Extensions")
			ext.AddChild(exd.Root())
			root.AddChild(ext)
			atk.Detail += ",nested-in-extensions"
		default: // nested inside another (forged) assertion's Advice, which sits beside nothing
			holder := a.Copy()
			removeSig(holder)
			pa, _ := prefixFor(a, NSAssertion)
			adv := holder.CreateElement(pa + "Advice")
			adv.AddChild(exd.Root())
			root.AddChild(holder)
			atk.Detail += ",nested-in-advice"
		}
		atk.XML = docString(d)
		return atk, true
	}
	return nil, false
}

func elString(e *etree.Element) string {
	d := etree.NewDocument()
	d.SetRoot(e.Copy())
	s, _ := d.WriteToString()
	return s
}

// DirectAssertionIDs returns the IDs of the Assertion elements that are direct children
// of the document root, and whether the root has a direct EncryptedAssertion child.
func DirectAssertionIDs(xml string) (map[string]bool, bool) {
	ids := map[string]bool{}
	d, err := parseDoc(xml)
	if err != nil {
		return ids, false
	}
	enc := false
	for _, c := range d.Root().ChildElements() {
		switch c.Tag {
		case "Assertion":
			// the unqualified ID attribute (etree's SelectAttrValue would also match xmlns:ID or x:ID)
			for _, a := range c.Attr {
				if a.Space == "" && a.Key == "ID" {
					ids[a.Value] = true
				}
			}
		case "EncryptedAssertion":
			enc = true
		}
	}
	return ids, enc
}

// AllAssertionElements counts the SAML Assertion elements anywhere in the document.
func AllAssertionElements(xml string) int {
	d, err := parseDoc(xml)
	if err != nil || d.Root() == nil {
		return 0
	}
	n := 0
	var walk func(e *etree.Element)
	walk = func(e *etree.Element) {
		if e.Tag == "Assertion" && e.NamespaceURI() == NSAssertion {
			n++
		}
		for _, c := range e.ChildElements() {
			walk(c)
		}
	}
	walk(d.Root())
	return n
}

// CarriedAssertions counts the direct children of the document root that are SAML
// assertions (namespace-aware) and those that are EncryptedAssertion elements.
func CarriedAssertions(xml string) (plain, encrypted int) {
	d, err := parseDoc(xml)
	if err != nil || d.Root() == nil {
		return 0, 0
	}
	for _, c := range d.Root().ChildElements() {
		if c.NamespaceURI() != NSAssertion {
			continue
		}
		switch c.Tag {
		case "Assertion":
			plain++
		case "EncryptedAssertion":
			encrypted++
		}
	}
	return
}
