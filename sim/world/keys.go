// Package world holds the stub parties of the simulated federation (IdP, browser,
// router, adversary, transport, clock, entropy, stores) and the wrapper around the
// real service provider.
package world

import (
	"crypto"
	"crypto/ecdsa"
	"crypto/rsa"
	"crypto/sha1"
	"crypto/x509"
	"crypto/x509/pkix"
	"embed"
	"encoding/pem"
	"fmt"
	"math/big"
	"sort"
	"sync"
	"time"
)

//go:embed keys/*.pem
var keyFS embed.FS

// Key pool: generation of keys is not replayable in Go, so it never happens at run time.
// Index layout: 0..7 RSA-2048, 8..9 RSA-1024, 10..11 ECDSA P-256.
type PoolKey struct {
	Idx    int
	Name   string
	Signer crypto.Signer
	RSA    *rsa.PrivateKey   // nil for EC keys
	EC     *ecdsa.PrivateKey // nil for RSA keys
}

const (
	NumRSA2048 = 8
	FirstRSA1k = 8
	FirstEC    = 10
	NumKeys    = 12
)

var (
	poolOnce sync.Once
	pool     []*PoolKey
)

func Keys() []*PoolKey {
	poolOnce.Do(func() {
		ents, err := keyFS.ReadDir("keys")
		if err != nil {
			panic(err)
		}
		var names []string
		for _, e := range ents {
			names = append(names, e.Name())
		}
		sort.Strings(names)
		byName := map[string]*PoolKey{}
		for _, n := range names {
			b, _ := keyFS.ReadFile("keys/" + n)
			blk, _ := pem.Decode(b)
			k, err := x509.ParsePKCS8PrivateKey(blk.Bytes)
			if err != nil {
				panic(err)
			}
			pk := &PoolKey{Name: n, Signer: k.(crypto.Signer)}
			switch kk := k.(type) {
			case *rsa.PrivateKey:
				pk.RSA = kk
			case *ecdsa.PrivateKey:
				pk.EC = kk
			}
			byName[n] = pk
		}
		add := func(n string) {
			k := byName[n]
			if k == nil {
				panic("missing key " + n)
			}
			k.Idx = len(pool)
			pool = append(pool, k)
		}
		for i := 0; i < 8; i++ {
			add(fmt.Sprintf("rsa2048_%d.pem", i))
		}
		add("rsa1024_0.pem")
		add("rsa1024_1.pem")
		add("ecp256_0.pem")
		add("ecp256_1.pem")
	})
	return pool
}

func Key(i int) *PoolKey { return Keys()[i] }

type certKey struct {
	key    int
	nb, na int64
	serial int64
}

var (
	certMu    sync.Mutex
	certCache = map[certKey]*Cert{}
)

type Cert struct {
	KeyIdx int
	DER    []byte
	X509   *x509.Certificate
}

// MintCert returns a certificate for pool key keyIdx valid in [nb,na]. It is signed by
// RSA pool key 7 with PKCS#1 v1.5 (deterministic), so the bytes are a pure function of
// the arguments; the SP never checks the chain, only identity and the validity window.
func MintCert(keyIdx int, nb, na time.Time, serial int64) *Cert {
	ck := certKey{keyIdx, nb.UnixNano(), na.UnixNano(), serial}
	certMu.Lock()
	defer certMu.Unlock()
	if c, ok := certCache[ck]; ok {
		return c
	}
	k := Key(keyIdx)
	ca := Key(7)
	caTpl := &x509.Certificate{SerialNumber: big.NewInt(1), Subject: pkix.Name{CommonName: "verifsim-ca"}}
	tpl := &x509.Certificate{
		SerialNumber:          big.NewInt(serial + 2),
		Subject:               pkix.Name{CommonName: fmt.Sprintf("verifsim-%s-%d", k.Name, serial)},
		NotBefore:             nb,
		NotAfter:              na,
		KeyUsage:              x509.KeyUsageDigitalSignature | x509.KeyUsageKeyEncipherment,
		BasicConstraintsValid: true,
		SignatureAlgorithm:    x509.SHA256WithRSA,
	}
	// a subject key identifier as real IdP certificates carry one (SHA-1 of the public key bytes)
	if pkb, err := x509.MarshalPKIXPublicKey(k.Signer.Public()); err == nil {
		h := sha1.Sum(pkb)
		tpl.SubjectKeyId = h[:]
	}
	der, err := x509.CreateCertificate(zeroReader{}, tpl, caTpl, k.Signer.Public(), ca.RSA)
	if err != nil {
		panic(err)
	}
	xc, err := x509.ParseCertificate(der)
	if err != nil {
		panic(err)
	}
	c := &Cert{KeyIdx: keyIdx, DER: der, X509: xc}
	if len(certCache) > 4096 {
		certCache = map[certKey]*Cert{}
	}
	certCache[ck] = c
	return c
}

// MintLookalike returns a certificate for pool key keyIdx that copies subject, issuer, serial number,
// validity and subject key identifier of tpl (a certificate of ANOTHER key): what somebody who only
// knows the public certificate can make for a key of their own.
func MintLookalike(tplCert *Cert, keyIdx int) *Cert {
	k := Key(keyIdx)
	ca := Key(7)
	caTpl := &x509.Certificate{SerialNumber: big.NewInt(1), Subject: pkix.Name{CommonName: "verifsim-ca"}}
	tpl := &x509.Certificate{
		SerialNumber:          tplCert.X509.SerialNumber,
		Subject:               tplCert.X509.Subject,
		NotBefore:             tplCert.X509.NotBefore,
		NotAfter:              tplCert.X509.NotAfter,
		KeyUsage:              tplCert.X509.KeyUsage,
		BasicConstraintsValid: true,
		SignatureAlgorithm:    x509.SHA256WithRSA,
		SubjectKeyId:          tplCert.X509.SubjectKeyId,
	}
	der, err := x509.CreateCertificate(zeroReader{}, tpl, caTpl, k.Signer.Public(), ca.RSA)
	if err != nil {
		panic(err)
	}
	xc, err := x509.ParseCertificate(der)
	if err != nil {
		panic(err)
	}
	return &Cert{KeyIdx: keyIdx, DER: der, X509: xc}
}

type zeroReader struct{}

func (zeroReader) Read(p []byte) (int, error) {
	for i := range p {
		p[i] = 0
	}
	return len(p), nil
}
