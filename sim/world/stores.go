package world

import (
	"crypto"
	"crypto/rsa"
	"crypto/x509"
	"errors"
	"io"
)

// SimCertStore is the IdP trust store seam: its composition changes at simulated events
// (roll-over) and it can fail on the k-th call.
type SimCertStore struct {
	Certs  []*Cert
	FailAt int // 1-based call index that returns an error; 0 = never
	Calls  int
	Fired  int
}

var ErrStoreFault = errors.New("simulated certificate store failure")

func (s *SimCertStore) Certificates() ([]*x509.Certificate, error) {
	s.Calls++
	if s.FailAt != 0 && s.Calls >= s.FailAt {
		s.Fired++
		return nil, ErrStoreFault
	}
	out := make([]*x509.Certificate, 0, len(s.Certs))
	for _, c := range s.Certs {
		out = append(out, c.X509)
	}
	return out, nil
}

func certStoreOf(cs ...*Cert) *SimCertStore { return &SimCertStore{Certs: cs} }

// FieldKeyStore implements dsig.X509KeyStore for the deprecated SPKeyStore fields.
type FieldKeyStore struct {
	Key   *rsa.PrivateKey
	Cert  []byte
	Err   error
	Calls int
}

func (k *FieldKeyStore) GetKeyPair() (*rsa.PrivateKey, []byte, error) {
	// stateless: called concurrently by the tasks of the concurrency engine
	if k.Err != nil {
		return nil, nil, k.Err
	}
	return k.Key, k.Cert, nil
}

// FaultCtl switches the signers of one SP configuration between working and failing (an HSM
// or remote signer that is temporarily unavailable).
type FaultCtl struct {
	Fail     bool
	FailNext int // fail this many further calls, then work again (a transient outage)
	Calls    int
	Fired    int
}

// FaultySigner wraps a crypto.Signer and fails on demand.
type FaultySigner struct {
	crypto.Signer
	Ctl *FaultCtl
}

var ErrSignerFault = errors.New("simulated signer failure")

func (f *FaultySigner) Sign(r io.Reader, digest []byte, opts crypto.SignerOpts) ([]byte, error) {
	f.Ctl.Calls++
	if f.Ctl.Fail || f.Ctl.FailNext > 0 {
		if f.Ctl.FailNext > 0 {
			f.Ctl.FailNext--
		}
		f.Ctl.Fired++
		return nil, ErrSignerFault
	}
	return f.Signer.Sign(r, digest, opts)
}
