module verifsim

go 1.21.0

require (
	github.com/beevik/etree v1.5.0
	github.com/jonboulle/clockwork v0.5.0
	github.com/russellhaering/gosaml2 v0.0.0
	github.com/russellhaering/goxmldsig v1.5.0
	golang.org/x/net v0.34.0
)

require github.com/mattermost/xml-roundtrip-validator v0.1.0 // indirect

replace github.com/russellhaering/gosaml2 => /repo
