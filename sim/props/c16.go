package props

import (
	"encoding/base64"
	"fmt"
	"net/url"
	"reflect"
	"strings"

	"github.com/beevik/etree"
	saml2 "github.com/russellhaering/gosaml2"

	"verifsim/core"
	"verifsim/world"
)

// C16 — POST-binding forms deliver message and relay state intact; no HTML injection.
// SP -> browser (HTML5 parser, golang.org/x/net/html) -> IdP. A run is a short sequence
// of form productions (kinds and relay-state presence vary inside one process, so state
// shared between calls is exercised), each parsed by the browser stub and submitted.
// Fit is thin: the simulator contributes the second party and the round trip.

var relayPool = []string{
	"",
	"rs",
	`a"b`,
	`"><script>alert(1)</script>`,
	`'><img src=x onerror=alert(1)>`,
	"x\ny\r\nz\rw",
	`&amp;&#34;&lt;`,
	"é漢   😀",
	`</form><form action="https://evil.example/">`,
	`--></script><script>alert(2)//`,
	`" autofocus onfocus="alert(3)`,
	`{{.URL}}`,
	"a b+c&d=e%41",
	strings.Repeat("A", 4096),
	"\t leading and trailing \t",
	`javascript:alert(1)`,
	" ", "\t", "\r\n", "\u00a0", "\u3000 ", // white space only: still a relay state
}

var postBuilders = []string{"BuildAuthBodyPost", "BuildAuthBodyPostFromDocument", "BuildLogoutBodyPostFromDocument", "BuildLogoutResponseBodyPostFromDocument"}

func init() {
	register(&Prop{
		ID:    "C16",
		Level: "exploration",
		Rule: "seeded SP->browser->IdP runs: sequences of 1-4 POST form productions over the four builders, relay state from a hostile pool (quotes, angle brackets, ampersands, script/comment terminators, newlines, non-ASCII, template syntax, 4 KiB) or absent, signed or unsigned documents with hostile configuration strings, endpoints with existing query parameters; " +
			"the page is parsed with the HTML5 algorithm: DOM skeleton equal to the benign page of the same build, one POST form whose action is the flow's endpoint (as URL), message field decoding to exactly the document, RelayState present iff given and equal modulo HTML newline normalisation; the submitted document is re-verified at the IdP; distinct = shape hash (builder sequence, relay classes, signed, outcome)",
		Directed:    c16Directed,
		Run:         c16Run,
		MustHit:     []string{"builder=BuildAuthBodyPost", "builder=BuildAuthBodyPostFromDocument", "builder=BuildLogoutBodyPostFromDocument", "builder=BuildLogoutResponseBodyPostFromDocument", "relay_absent", "relay_hostile", "relay_absent_then_present", "relay_present_then_absent", "signed", "unsigned", "endpoint_reassigned_between_document_and_form", "unsigned_document_with_request_signing_on"},
		RandomRuns:  map[string]int{"quick": 5000, "thorough": 50000},
		Assumptions: []string{"NUL and invalid UTF-8 are excluded from relay states (HTML cannot carry them); CR and CRLF compare equal to LF, as the HTML input-stream preprocessing prescribes"},
	})
}

// draw order: nCalls, then four times (builder, relay, signed), then DrawOut
func c16Directed(tier string) [][]uint64 {
	var out [][]uint64
	// single calls: builder x relay
	for b := uint64(0); b < 4; b++ {
		for rs := uint64(0); rs < uint64(len(relayPool)); rs++ {
			out = append(out, []uint64{0, b, rs, (b + rs) % 2})
		}
	}
	// two-call sequences: absent then present and the reverse, same and different builders
	for b1 := uint64(0); b1 < 4; b1++ {
		for b2 := uint64(0); b2 < 4; b2++ {
			out = append(out, []uint64{1, b1, 0, 0, b2, 3, 0})
			out = append(out, []uint64{1, b1, 2, 0, b2, 0, 0})
		}
	}
	return out
}

func c16Run(r *core.Run) {
	t := r.Tape
	// the plan is drawn first so that directed prefixes can force it
	nCalls := 1 + t.Int(4, "c16.ncalls")
	type plan struct {
		builder, relay string
		signed         bool
		reconf         bool // the application re-assigns the IdP endpoint between building the document and building the form
	}
	var plans []plan
	for i := 0; i < 4; i++ {
		plans = append(plans, plan{postBuilders[t.Int(4, "c16.builder")], relayPool[t.Int(len(relayPool), "c16.relay")], t.Bool("c16.signed"), false})
	}
	for i := range plans {
		plans[i].reconf = t.Int(4, "c16.reconf") == 1
	}
	o := DrawOut(r, 0, true)
	if !o.PreHistory(r) || !o.Build() {
		return
	}
	if t.Int(5, "c16.otherapi") == 1 {
		OtherAPICalls(r, o.Node.SP, 3)
	}
	c16SignKnown = false
	prevRelay := -1 // -1 none yet, 0 absent, 1 present
	seq := ""
	for call := 0; call < nCalls && !r.Failed(); call++ {
		builder, relay, signed := plans[call].builder, plans[call].relay, plans[call].signed
		r.Probe("builder=" + builder)
		if relay == "" {
			r.Probe("relay_absent")
			if prevRelay == 1 {
				r.Probe("relay_present_then_absent")
			}
			prevRelay = 0
		} else {
			if relay != "rs" {
				r.Probe("relay_hostile")
			}
			if prevRelay == 0 {
				r.Probe("relay_absent_then_present")
			}
			prevRelay = 1
		}
		if signed {
			r.Probe("signed")
		} else {
			r.Probe("unsigned")
		}
		// the application hands over an unsigned document although request signing is switched on in the
		// configuration: the form carries the document it was given
		c16SignOnAnyway = !signed && builder == "BuildAuthBodyPostFromDocument" && t.Int(2, "c16.signonanyway") == 1
		if c16SignOnAnyway {
			r.Probe("unsigned_document_with_request_signing_on")
		}
		c16Reconf = plans[call].reconf
		if c16Reconf && builder != "BuildAuthBodyPost" {
			r.Fault("endpoint_reassigned_between_document_and_form")
		}
		page, docBytes, endpoint, field, kind, out := c16Produce(r, o, builder, relay, signed)
		r.Steps++
		seq += fmt.Sprintf("%s/%v/%v;", builder[5:], relay != "", signed)
		ctx := obs("call", call, "sequence", seq, "builder", builder, "relay_state", trunc(relay, 200), "signed", signed, "endpoint", endpoint, "page", trunc(string(page), 1500))
		r.Logf("call %d %s relay=%q signed=%v -> %s", call, builder, trunc(relay, 40), signed, out.Class())
		if out.Panic != "" || !out.OK() {
			ctx["err"], ctx["panic"] = fmt.Sprint(out.Err), out.Panic
			r.Fail("produce", "C16/build-failed/"+builder, ctx)
			break
		}
		// the benign page of the same build and flow
		benignRelay := ""
		if relay != "" {
			benignRelay = "rs"
		}
		bpage, _, _, _, _, bout := c16Produce(r, o, builder, benignRelay, signed)
		if !bout.OK() {
			ctx["err"] = fmt.Sprint(bout.Err)
			r.Fail("produce", "C16/build-failed/"+builder, ctx)
			break
		}
		pp, err := world.ParsePage(page)
		bp, berr := world.ParsePage(bpage)
		if err != nil || berr != nil {
			r.Fail("parse", "C16/page-does-not-parse", ctx)
			break
		}
		if !reflect.DeepEqual(pp.Skeleton, bp.Skeleton) {
			ctx["skeleton"], ctx["benign_skeleton"] = pp.Skeleton, bp.Skeleton
			r.Fail("structure", "C16/dom-structure-changed-by-values/"+builder, ctx)
			break
		}
		if !reflect.DeepEqual(pp.Scripts, bp.Scripts) {
			r.Fail("structure", "C16/script-content-changed-by-values/"+builder, ctx)
			break
		}
		if pp.Forms != 1 || !strings.EqualFold(pp.Method, "post") {
			ctx["forms"], ctx["method"] = pp.Forms, pp.Method
			r.Fail("form", "C16/not-a-single-post-form/"+builder, ctx)
			break
		}
		if !sameURL(pp.Action, endpoint) {
			ctx["action"] = pp.Action
			r.Fail("form", "C16/action-is-not-the-endpoint/"+builder, ctx)
			break
		}
		var msg, rs *world.FormField
		extra := 0
		for i := range pp.Fields {
			f := &pp.Fields[i]
			switch {
			case f.Name == field:
				msg = f
			case f.Name == "RelayState":
				rs = f
			case f.Type == "submit":
			default:
				extra++
			}
		}
		if msg == nil || extra != 0 {
			ctx["fields"] = fmt.Sprintf("%+v", pp.Fields)
			r.Fail("form", "C16/message-field-missing-or-extra-fields/"+builder, ctx)
			break
		}
		dec, err := base64.StdEncoding.DecodeString(msg.Value)
		if err != nil || string(dec) != string(docBytes) {
			ctx["decoded"] = trunc(string(dec), 400)
			r.Fail("message", "C16/message-field-does-not-decode-to-the-document/"+builder, ctx)
			break
		}
		if (rs != nil) != (relay != "") {
			r.Fail("relay", fmt.Sprintf("C16/relay-state-presence/%s/given=%v", builder, relay != ""), ctx)
			break
		}
		if rs != nil && rs.Value != world.HTMLNewlineNorm(relay) {
			ctx["got"] = trunc(rs.Value, 300)
			r.Fail("relay", "C16/relay-state-not-recovered/"+builder, ctx)
			break
		}
		// the browser submits: the IdP re-checks what actually arrived
		if d, err := world.ConformingParse(dec); err != nil {
			r.Fail("message", "C16/submitted-document-not-wellformed", ctx)
		} else if d.Root().Tag != kind {
			r.Fail("message", "C16/submitted-document-has-wrong-kind", ctx)
		} else if f := world.ReadSigFacts(d.Root()); f.Present != signed {
			r.Fail("message", fmt.Sprintf("C16/wrong-choice-of-signed-or-unsigned-document/%s/want-signed=%v/%s", builder, signed, o.KeyCfg()), ctx)
		} else if f.Present {
			if err := world.VerifyEnveloped(d.Root(), o.WantSignCert.DER, o.Node.Clock.Dsig()); err != nil {
				ctx["err"] = fmt.Sprint(err)
				r.Fail("message", "C16/submitted-signature-does-not-verify", ctx)
			}
		}
	}
	r.Shape(seq)
	r.Sample = obs("sequence", seq, "key_config", o.KeyCfg())
}

// c16Reconf: see plan.reconf (set per call by c16Run).
var c16Reconf bool

// c16SignOnAnyway: see c16Run (set per call).
var c16SignOnAnyway bool

// The application assigns SignAuthnRequests only when it wants another value than the one it assigned last
// (it remembers what it configured; it does not read the field back).
var c16SignKnown, c16SignVal bool

func c16SetSigning(sp *saml2.SAMLServiceProvider, v bool) {
	if !c16SignKnown || c16SignVal != v {
		sp.SignAuthnRequests = v
		c16SignKnown, c16SignVal = true, v
	}
}

// c16Moved is the endpoint the application switches to (IdP metadata refresh).
func c16Moved(u string) string {
	return strings.Replace(u, "https://idp.example", "https://idp-new.example", 1)
}

func sameURL(a, b string) bool {
	ua, e1 := url.Parse(a)
	ub, e2 := url.Parse(b)
	if e1 != nil || e2 != nil {
		return a == b
	}
	return ua.Scheme == ub.Scheme && ua.Host == ub.Host && ua.Path == ub.Path && sameQuery(ua.RawQuery, ub.RawQuery) && ua.Fragment == ub.Fragment
}

// sameQuery: the same parameters in the same order, each key and value equal after percent-decoding,
// "k" and "k=" distinguished (the HTML serialisation may change how octets are escaped, nothing else).
func sameQuery(a, b string) bool {
	pa, pb := strings.Split(a, "&"), strings.Split(b, "&")
	if len(pa) != len(pb) {
		return false
	}
	for i := range pa {
		ka, va, ha := strings.Cut(pa[i], "=")
		kb, vb, hb := strings.Cut(pb[i], "=")
		if ha != hb {
			return false
		}
		dk1, e1 := url.QueryUnescape(ka)
		dk2, e2 := url.QueryUnescape(kb)
		dv1, e3 := url.QueryUnescape(va)
		dv2, e4 := url.QueryUnescape(vb)
		if e1 != nil || e2 != nil || e3 != nil || e4 != nil {
			if pa[i] != pb[i] {
				return false
			}
			continue
		}
		if dk1 != dk2 || dv1 != dv2 {
			return false
		}
	}
	return true
}

// c16Produce runs one builder. It returns the page, the exact document bytes the form
// must carry, the endpoint of that flow, the field name and the message kind.
func c16Produce(r *core.Run, o *Out, builder, relay string, signed bool) (page, doc []byte, endpoint, field, kind string, out world.Outcome) {
	sp := o.Node.SP
	field = "SAMLRequest"
	var d *etree.Document
	out = world.Guard(func() error {
		var err error
		switch builder {
		case "BuildAuthBodyPost":
			kind, endpoint = "AuthnRequest", o.Cfg.IdPSSOURL
			c16SetSigning(sp, signed) // this builder chooses the signed or unsigned document itself
			page, err = sp.BuildAuthBodyPost(relay)
			return err
		case "BuildAuthBodyPostFromDocument":
			kind, endpoint = "AuthnRequest", o.Cfg.IdPSSOURL
			c16SetSigning(sp, signed) // BuildAuthRequestDocument signs only when request signing is on
			if signed {
				d, err = sp.BuildAuthRequestDocument()
			} else {
				d, err = sp.BuildAuthRequestDocumentNoSig()
			}
			if err != nil {
				return err
			}
			if c16Reconf {
				endpoint = c16Moved(endpoint)
				sp.IdentityProviderSSOURL = endpoint
				defer func() { sp.IdentityProviderSSOURL = o.Cfg.IdPSSOURL }()
			}
			doc, _ = d.WriteToBytes() // the document as supplied
			if c16SignOnAnyway {
				c16SetSigning(sp, true)
			}
			page, err = sp.BuildAuthBodyPostFromDocument(relay, d)
		case "BuildLogoutBodyPostFromDocument":
			kind, endpoint = "LogoutRequest", o.Cfg.IdPSLOURL
			if signed {
				d, err = sp.BuildLogoutRequestDocument("alice <&> \"x\"", "s1")
			} else {
				d, err = sp.BuildLogoutRequestDocumentNoSig("alice <&> \"x\"", "s1")
			}
			if err != nil {
				return err
			}
			if c16Reconf {
				endpoint = c16Moved(endpoint)
				sp.IdentityProviderSLOURL = endpoint
				defer func() { sp.IdentityProviderSLOURL = o.Cfg.IdPSLOURL }()
			}
			doc, _ = d.WriteToBytes() // the document as supplied
			page, err = sp.BuildLogoutBodyPostFromDocument(relay, d)
		default:
			kind, endpoint, field = "LogoutResponse", o.Cfg.IdPSLOURL, "SAMLResponse"
			if signed {
				d, err = sp.BuildLogoutResponseDocument(world.StatusOK, "_req1")
			} else {
				d, err = sp.BuildLogoutResponseDocumentNoSig(world.StatusOK, "_req1")
			}
			if err != nil {
				return err
			}
			if c16Reconf {
				endpoint = c16Moved(endpoint)
				sp.IdentityProviderSLOURL = endpoint
				defer func() { sp.IdentityProviderSLOURL = o.Cfg.IdPSLOURL }()
			}
			doc, _ = d.WriteToBytes() // the document as supplied
			page, err = sp.BuildLogoutResponseBodyPostFromDocument(relay, d)
		}
		if err != nil {
			return err
		}
		if after, _ := d.WriteToBytes(); string(after) != string(doc) {
			return fmt.Errorf("the builder modified the document it was given")
		}
		return err
	})
	if builder == "BuildAuthBodyPost" && out.OK() {
		// the builder makes its own document: what the form carries is the document
		if pp, err := world.ParsePage(page); err == nil {
			for _, f := range pp.Fields {
				if f.Name == field {
					doc, _ = base64.StdEncoding.DecodeString(f.Value)
				}
			}
		}
	}
	return
}
