package props

import (
	"encoding/base64"
	"fmt"
	"net/http"
	"net/http/httptest"
	"net/url"
	"sort"
	"strings"

	"github.com/beevik/etree"

	"verifsim/core"
	"verifsim/world"
)

// C14 — redirect URLs carry the exact message and a signature over exact query octets.
// SP -> browser -> IdP over HTTP-Redirect: the IdP stub sees only the URL, splits the raw
// query string itself and recomputes the signed octets from the percent-encoded values
// exactly as they appear. Fit is thin: the simulator contributes the second party.

var redirectBuilders = []string{"BuildAuthURLRedirect", "BuildLogoutURLRedirect", "BuildAuthURL", "BuildAuthURLFromDocument", "AuthRedirect"}

func init() {
	register(&Prop{
		ID:    "C14",
		Level: "exploration",
		Rule: "seeded SP->browser->IdP runs: redirect builders (AuthnRequest redirect signed/unsigned, LogoutRequest redirect, POST-flavoured URL builders, AuthRedirect Location header) x relay state from a hostile pool (empty, spaces, + & = %, non-ASCII, 4 KiB) x request documents with hostile strings x IdP URLs with 0-3 existing query parameters x key configuration x signature algorithm; " +
			"the IdP checks endpoint and pre-existing parameters, SAMLRequest inflating to exactly the document, RelayState presence and value, SigAlg naming the algorithm and the signature verifying with crypto/rsa or crypto/ecdsa over SAMLRequest=..[&RelayState=..]&SigAlg=.. rebuilt from the raw URL octets under the published certificate; distinct = shape hash (builder, relay class, endpoint, key config, algorithm, outcome)",
		Directed:   c14Directed,
		Run:        c14Run,
		MustHit:    []string{"builder=BuildAuthURLRedirect", "builder=BuildLogoutURLRedirect", "builder=BuildAuthURL", "builder=AuthRedirect", "relay_absent", "relay_with_space", "relay_with_reserved", "endpoint_with_query", "signed_redirect", "unsigned_redirect", "ec_signer", "unsupported_algorithm_configured", "decorated_document", "second_redirect_on_same_sp", "incoming_request_with_query", "caller_document_already_signed"},
		RandomRuns: map[string]int{"quick": 6000, "thorough": 50000},
	})
}

var c14Relays = []string{"", "rs", "a b", "a+b", "a&b=c", "100%", "%41%zz", "é/?#[]@", " lead and trail ", "x=y&SigAlg=evil&Signature=AAAA", strings.Repeat("r", 4096), "tab\tnl\ncr\r", "~!*'();:@$,", "RelayState=1&SAMLRequest=zzz", " ", "\t", "\r\n", "\u00a0", "\u3000 ",
	// nothing but unreserved characters and slashes (a path): no escaping needed anywhere except for '/'
	"/app/home", "2024/10/03", "a/b", "path/to~x.y-z_/", "/"}

// draw order: builder, relay, signRequests, then DrawOut
func c14Directed(tier string) [][]uint64 {
	var out [][]uint64
	for b := uint64(0); b < uint64(len(redirectBuilders)); b++ {
		for rs := uint64(0); rs < uint64(len(c14Relays)); rs++ {
			for sg := uint64(0); sg < 2; sg++ {
				// followed by DrawOut's encstyle, sigstyle, ecsigner, alg, canon, hostile
				out = append(out, []uint64{b, rs, sg, (b + rs + sg) % 5, 1 + (b+rs)%5, (rs + sg) % 6, (b + rs + sg) % 4, (b + rs) % 7, 0, rs % 2})
			}
		}
	}
	return out
}

func c14Run(r *core.Run) {
	t := r.Tape
	builder := redirectBuilders[t.Int(len(redirectBuilders), "c14.builder")]
	relay := c14Relays[t.Int(len(c14Relays), "c14.relay")]
	signReq := t.Int(2, "c14.signrequests") == 0
	decor := t.Int(5, "c14.decor") // caller-supplied document: tokens outside the root element
	o := DrawOut(r, 0, true)
	o.Cfg.SignRequests = signReq
	if !o.PreHistory(r) || !o.Build() {
		return
	}
	if t.Int(5, "c14.otherapi") == 1 {
		OtherAPICalls(r, o.Node.SP, 3)
	}
	c14Measure(r, o, builder, relay, signReq, decor)
	if !r.Failed() && r.Harness == "" && t.Int(3, "c14.again") == 1 {
		// the same SP produces a second redirect (other relay state): nothing may accumulate
		r.Fault("second_redirect_on_same_sp")
		if t.Int(2, "c14.rotate") == 1 {
			o.RotateFieldSigningStore(r)
		}
		c14Measure(r, o, builder, c14Relays[t.Int(len(c14Relays), "c14.relay2")], signReq, decor)
	}
}

func c14Measure(r *core.Run, o *Out, builder, relay string, signReq bool, decor int) {
	t := r.Tape
	sp := o.Node.SP
	r.Probe("builder=" + builder)
	switch {
	case relay == "":
		r.Probe("relay_absent")
	case strings.Contains(relay, " "):
		r.Probe("relay_with_space")
	}
	if strings.ContainsAny(relay, "&=+%#?") {
		r.Probe("relay_with_reserved")
	}
	if world.Key(o.WantSignKey).EC != nil {
		r.Probe("ec_signer")
	}
	if o.UnsupportedAlg {
		r.Probe("unsupported_algorithm_configured")
	}
	if decor != 0 {
		r.Probe("decorated_document")
	}
	endpoint := o.Cfg.IdPSSOURL
	// the application may re-assign the IdP endpoint (metadata refresh) between building a document and
	// building the URL for it: the URL goes to the configured endpoint, whatever the document says
	moved := t.Int(4, "c14.moved") == 1
	move := func(slo bool) {
		if !moved {
			return
		}
		endpoint = strings.Replace(endpoint, "https://idp.example", "https://idp-new.example", 1)
		if slo {
			sp.IdentityProviderSLOURL = endpoint
		} else {
			sp.IdentityProviderSSOURL = endpoint
		}
		r.Fault("endpoint_reassigned_between_document_and_url")
	}
	defer func() { sp.IdentityProviderSSOURL, sp.IdentityProviderSLOURL = o.Cfg.IdPSSOURL, o.Cfg.IdPSLOURL }()
	docSigned := t.Int(3, "c14.docsigned") == 1
	if docSigned && (builder == "BuildAuthURLRedirect" || builder == "BuildLogoutURLRedirect") {
		r.Probe("caller_document_already_signed")
	}
	var doc *etree.Document
	var u string
	var docStr, docAfter string
	signingApplies := false
	out := world.Guard(func() error {
		var err error
		switch builder {
		case "BuildAuthURLRedirect":
			if docSigned {
				// the caller hands over a document that already carries an enveloped signature
				sp.SignAuthnRequests = true
				doc, err = sp.BuildAuthRequestDocument()
				sp.SignAuthnRequests = signReq
			} else {
				doc, err = sp.BuildAuthRequestDocumentNoSig()
			}
			if err != nil {
				return err
			}
			decorate(doc, decor)
			move(false)
			docStr, _ = doc.WriteToString() // the document as supplied
			u, err = sp.BuildAuthURLRedirect(relay, doc)
			signingApplies = signReq
		case "BuildLogoutURLRedirect":
			endpoint = o.Cfg.IdPSLOURL
			if docSigned {
				doc, err = sp.BuildLogoutRequestDocument(world.DrawNonEmpty(t, "c14.nameid"), "s1")
			} else {
				doc, err = sp.BuildLogoutRequestDocumentNoSig(world.DrawNonEmpty(t, "c14.nameid"), "s1")
			}
			if err != nil {
				return err
			}
			decorate(doc, decor)
			move(true)
			docStr, _ = doc.WriteToString() // the document as supplied
			u, err = sp.BuildLogoutURLRedirect(relay, doc)
			signingApplies = true
		case "BuildAuthURLFromDocument":
			doc, err = sp.BuildAuthRequestDocumentNoSig()
			if err != nil {
				return err
			}
			decorate(doc, decor)
			move(false)
			docStr, _ = doc.WriteToString() // the document as supplied
			u, err = sp.BuildAuthURLFromDocument(relay, doc)
		case "BuildAuthURL":
			u, err = sp.BuildAuthURL(relay)
		default:
			rec := httptest.NewRecorder()
			// the browser's own request to the SP is under the user agent's control: nothing in it may
			// find its way into the redirect
			incoming := []string{"https://sp.example/login", "https://sp.example/login?RelayState=from-the-browser&SAMLRequest=ZXZpbA%3D%3D&SigAlg=urn%3Ax&Signature=AAAA",
				"https://sp.example/login?next=%2Fhome%3Ftab%3D2&relaystate=lower", "https://sp.example/login?RelayState="}[t.Int(4, "c14.incoming")]
			req := httptest.NewRequest(http.MethodGet, incoming, nil)
			if strings.Contains(incoming, "?") {
				req.Header.Set("Referer", "https://evil.example/?RelayState=from-referer")
				req.AddCookie(&http.Cookie{Name: "RelayState", Value: "from-cookie"})
				r.Probe("incoming_request_with_query")
			}
			err = sp.AuthRedirect(rec, req, relay)
			if err == nil {
				if rec.Code != http.StatusFound {
					return fmt.Errorf("status %d", rec.Code)
				}
				u = rec.Header().Get("Location")
			}
		}
		if err != nil {
			return err
		}
		if doc != nil {
			docAfter, _ = doc.WriteToString()
		}
		return err
	})
	r.Steps++
	if strings.Contains(endpoint, "?") {
		r.Probe("endpoint_with_query")
	}
	if signingApplies {
		r.Probe("signed_redirect")
	} else {
		r.Probe("unsigned_redirect")
	}
	ctx := obs("builder", builder, "relay_state", trunc(relay, 120), "endpoint", endpoint, "key_config", o.KeyCfg(), "algorithm", o.WantSigAlg, "sign_requests", signReq, "url", trunc(u, 1500))
	r.Logf("%s relay=%q endpoint=%s sign=%v keycfg=%s -> %s", builder, trunc(relay, 30), endpoint, signingApplies, o.KeyCfg(), out.Class())
	r.Shape(fmt.Sprintf("%s.%d.%s.%v.%s.%s.%s", builder, len(relay)%97, endpoint, signingApplies, o.KeyCfg(), o.WantSigAlg, out.Class()))
	r.Sample = obs("builder", builder, "relay_state", trunc(relay, 60), "endpoint", endpoint, "signed", signingApplies, "key_config", o.KeyCfg(), "outcome", out.Class())
	if out.Panic != "" || !out.OK() {
		ctx["err"], ctx["panic"] = fmt.Sprint(out.Err), out.Panic
		r.Fail("produce", "C14/build-failed/"+builder, ctx)
		return
	}
	if doc != nil && docAfter != docStr {
		ctx["document_before"], ctx["document_after"] = trunc(docStr, 600), trunc(docAfter, 600)
		r.Fail("purity", "C14/caller-document-modified/"+builder, ctx)
		return
	}
	// ---- the IdP only sees the URL
	p, err := world.SplitRedirect(u)
	if err != nil {
		ctx["err"] = fmt.Sprint(err)
		r.Fail("url", "C14/url-not-parsable", ctx)
		return
	}
	eu, _ := url.Parse(endpoint)
	wantBase := endpoint
	if i := strings.IndexByte(endpoint, '?'); i >= 0 {
		wantBase = endpoint[:i]
	}
	gu, err := url.Parse(p.Base)
	if err != nil || gu.Scheme != eu.Scheme || gu.Host != eu.Host || gu.Path != eu.Path {
		ctx["base"], ctx["want_base"] = p.Base, wantBase
		r.Fail("endpoint", "C14/endpoint-not-preserved/"+builder, ctx)
		return
	}
	// pre-existing parameters survive, as a multiset of decoded pairs
	gotParams := map[string][]string{}
	for k, vs := range p.ByKey {
		if k == "SAMLRequest" || k == "RelayState" || k == "SigAlg" || k == "Signature" {
			continue
		}
		for _, v := range vs {
			dv, _ := url.QueryUnescape(v)
			gotParams[k] = append(gotParams[k], dv)
		}
	}
	wantParams := map[string][]string(eu.Query())
	if !sameMultimap(gotParams, wantParams) {
		ctx["got_params"], ctx["want_params"] = gotParams, wantParams
		r.Fail("endpoint", "C14/existing-query-parameters-not-preserved/"+builder, ctx)
		return
	}
	if len(p.ByKey["SAMLRequest"]) != 1 {
		r.Fail("message", "C14/SAMLRequest-missing-or-repeated/"+builder, ctx)
		return
	}
	rawReq := p.ByKey["SAMLRequest"][0]
	decReq, err := url.QueryUnescape(rawReq)
	if err != nil {
		r.Fail("message", "C14/SAMLRequest-not-decodable/"+builder, ctx)
		return
	}
	inflated, err := world.InflateB64(decReq)
	if err != nil {
		ctx["err"] = fmt.Sprint(err)
		r.Fail("message", "C14/SAMLRequest-does-not-inflate/"+builder, ctx)
		return
	}
	if doc != nil && string(inflated) != docStr {
		ctx["inflated"] = trunc(string(inflated), 600)
		r.Fail("message", "C14/SAMLRequest-is-not-the-document/"+builder, ctx)
		return
	}
	if doc == nil {
		if d, err := world.ConformingParse(inflated); err != nil || d.Root().Tag != "AuthnRequest" {
			r.Fail("message", "C14/SAMLRequest-is-not-an-AuthnRequest/"+builder, ctx)
			return
		}
	}
	rsVals := p.ByKey["RelayState"]
	if (len(rsVals) == 1) != (relay != "") || len(rsVals) > 1 {
		r.Fail("relay", fmt.Sprintf("C14/relay-state-presence/%s/given=%v", builder, relay != ""), ctx)
		return
	}
	if relay != "" {
		dv, err := url.QueryUnescape(rsVals[0])
		if err != nil || dv != relay {
			ctx["got"] = trunc(dv, 200)
			r.Fail("relay", "C14/relay-state-not-recovered/"+builder, ctx)
			return
		}
	}
	if !signingApplies {
		return
	}
	if len(p.ByKey["SigAlg"]) != 1 || len(p.ByKey["Signature"]) != 1 {
		r.Fail("signature", "C14/SigAlg-or-Signature-missing/"+builder, ctx)
		return
	}
	rawAlg := p.ByKey["SigAlg"][0]
	alg, _ := url.QueryUnescape(rawAlg)
	if alg != o.WantSigAlg {
		ctx["sigalg"] = alg
		r.Fail("signature", "C14/SigAlg-does-not-name-the-configured-algorithm/"+builder, ctx)
		return
	}
	sigB64, err := url.QueryUnescape(p.ByKey["Signature"][0])
	if err != nil {
		r.Fail("signature", "C14/Signature-not-decodable", ctx)
		return
	}
	sig, err := base64.StdEncoding.DecodeString(sigB64)
	if err != nil {
		r.Fail("signature", "C14/Signature-not-base64", ctx)
		return
	}
	signed := "SAMLRequest=" + rawReq
	if relay != "" {
		signed += "&RelayState=" + rsVals[0]
	}
	signed += "&SigAlg=" + rawAlg
	reported, err := sp.GetSigningCertBytes()
	if err != nil {
		r.Fail("signature", "C14/no-signing-certificate-reported", ctx)
		return
	}
	if err := world.VerifyRaw(reported, alg, []byte(signed), sig); err != nil {
		ctx["err"], ctx["signed_octets"] = fmt.Sprint(err), trunc(signed, 400)
		r.Fail("signature", "C14/signature-does-not-verify-over-url-octets/"+builder, ctx)
		return
	}
	if string(reported) != string(o.WantSignCert.DER) {
		r.Fail("signature", "C14/signed-with-unexpected-key/"+o.KeyCfg(), ctx)
	}
}

// decorate adds what a caller-supplied document may carry beside its root.
func decorate(doc *etree.Document, mode int) {
	switch mode {
	case 1:
		doc.InsertChildAt(0, etree.NewProcInst("xml", `version="1.0" encoding="UTF-8"`))
	case 2:
		doc.InsertChildAt(0, etree.NewComment(" request "))
	case 3:
		doc.AddChild(etree.NewText("\n"))
	case 4:
		doc.InsertChildAt(0, etree.NewProcInst("xml", `version="1.0"`))
		doc.AddChild(etree.NewComment(" end "))
	}
}

func sameMultimap(a, b map[string][]string) bool {
	if len(a) != len(b) {
		return false
	}
	for k, av := range a {
		bv, ok := b[k]
		if !ok || len(av) != len(bv) {
			return false
		}
		as, bs := append([]string(nil), av...), append([]string(nil), bv...)
		sort.Strings(as)
		sort.Strings(bs)
		for i := range as {
			if as[i] != bs[i] {
				return false
			}
		}
	}
	return true
}
