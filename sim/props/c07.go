package props

import (
	"errors"
	"fmt"
	"regexp"
	"strings"
	"time"

	"github.com/beevik/etree"

	"verifsim/core"
	"verifsim/world"
)

// C07 — encryption confers no trust; decryption is bound to the SP's own valid key.

var c07Modes = []string{"genuine", "attacker-encrypt", "nested-unsigned-response", "nested-signed-by-nonconforming-idp"}
var c07Embeds = []string{"absent", "sp", "foreign"}
var c07Clock = []string{"inside", "nb-1s", "nb-1ns", "nb", "na", "na+1ns", "na+1s"}
var c07KeyFaults = []string{"none", "empty-cert", "garbage-cert", "keystore-error"}

func init() {
	register(&Prop{
		ID:    "C07",
		Level: "fault_enumeration",
		Rule: "seeded federation runs: genuine encrypted responses (Response / assertion / both signed) and attacker-encrypted plaintexts (forged, attacker-signed, cut from a signed Response, non-assertion, garbage) under every algorithm, placed directly, beside a genuine assertion or nested; embedded recipient certificate absent / SP's / foreign; " +
			"SP key by field / TLS field / setter / both; ValidateEncryptionCert on/off with the SP clock enumerated on the SP certificate's NotBefore/NotAfter +/- {0,1ns,1s}; key stores handing out an empty or unparsable certificate or failing; " +
			"oracle: conservation over the issue log, nested => error, foreign recipient => error, option on => accept only inside the window with a parsable certificate, option off => same as plaintext twin; distinct = shape hash of those knobs and the outcome",
		Directed:    c07Directed,
		Run:         c07Run,
		MustHit:     []string{"mode=genuine", "mode=attacker-encrypt", "mode=nested-unsigned-response", "mode=nested-signed-by-nonconforming-idp", "embed=foreign", "embed=sp", "clock=nb-1ns", "clock=nb", "clock=na", "clock=na+1ns", "validate_on", "validate_off", "keyfault=empty-cert", "keyfault=garbage-cert", "keyfault=keystore-error", "key=setter", "key=field", "key=tls", "tls_leaf_differs", "clock_jump_past_sp_cert_window", "same_payload_offered_to_an_sp_holding_another_key"},
		RandomRuns:  map[string]int{"quick": 6000, "thorough": 60000},
		Assumptions: []string{"encrypted layouts run with signature checking on (with checking off the library never decrypts)"},
	})
}

// draw order: mode, embed, validate, clock, keyfault, keystyle, place
func c07Directed(tier string) [][]uint64 {
	var out [][]uint64
	for mode := uint64(0); mode < 4; mode++ {
		for emb := uint64(0); emb < 3; emb++ {
			for val := uint64(0); val < 2; val++ {
				for clk := uint64(0); clk < uint64(len(c07Clock)); clk++ {
					for kf := uint64(0); kf < 4; kf++ {
						if kf != 0 && (clk != 0 || emb == 2) {
							continue
						}
						for ks := uint64(0); ks < 4; ks++ {
							if tier == "quick" && (mode+emb+val+clk+kf+ks)%4 != 0 {
								continue
							}
							out = append(out, []uint64{mode, emb, val, clk, kf, ks, (mode + emb + clk + ks) % 3})
						}
					}
				}
			}
		}
	}
	return out
}

func c07Run(r *core.Run) {
	t := r.Tape
	mode := c07Modes[t.Int(len(c07Modes), "c07.mode")]
	embed := c07Embeds[t.Int(3, "c07.embed")]
	validate := t.Int(2, "c07.validate") == 1
	clk := c07Clock[t.Int(len(c07Clock), "c07.clock")]
	kfv := t.Int(12, "c07.keyfault")
	if kfv >= len(c07KeyFaults) {
		kfv = 0
	}
	keyFault := c07KeyFaults[kfv]
	ks := c11KeyStyles[t.Int(4, "c07.keystyle")]
	place := t.Int(3, "c07.place")

	s := NewStd(r)
	s.DrawLive()
	s.DrawClockKnobs()
	spKey := 4 + t.Int(2, "c07.spkey")
	nb := s.Epoch.Add(time.Duration(60+t.Int(600, "c07.nb")) * time.Second).Truncate(time.Second)
	na := nb.Add(time.Duration(600+t.Int(6000, "c07.na")) * time.Second)
	spCert := world.MintCert(spKey, nb, na, 1)
	s.Cfg.EncStyle, s.Cfg.EncKeyIdx, s.Cfg.EncCert = ks, spKey, spCert
	if rs := t.Int(8, "c07.rejectedsetter"); rs >= 1 && rs <= 3 {
		s.Cfg.RejectedSetters = rs // an attempted rotation to a key that failed to load: refused, changes nothing
		r.Fault("key_rotation_refused_by_the_sp")
	}
	s.Cfg.ValidateEncCert = validate
	s.Cfg.AllowMissing = true
	switch keyFault {
	case "empty-cert":
		s.Cfg.EncCertRaw = []byte{}
	case "garbage-cert":
		s.Cfg.EncCertRaw = []byte("\x30\x82not a certificate at all")
	case "keystore-error":
		if ks == world.KeyField { // with both configured the setter key takes precedence and the field store is never consulted
			s.Cfg.EncKeyErr = errors.New("simulated key store failure")
		} else {
			keyFault = "none"
		}
	}
	if keyFault != "none" {
		r.Fault("keystore_" + keyFault)
		r.Probe("keyfault=" + keyFault)
	}
	if ks == world.KeyTLS && t.Bool("c07.leaf") {
		// the parsed-certificate cache of the TLS key store holds a long-lived certificate of the
		// same key; what counts is the configured certificate itself
		s.Cfg.EncLeaf = world.MintCert(spKey, s.Epoch.Add(-1000*time.Hour), s.Epoch.Add(100000*time.Hour), 5)
		r.Probe("tls_leaf_differs")
	}
	if !s.Build() {
		return
	}
	r.Probe("mode=" + mode)
	r.Probe("embed=" + embed)
	r.Probe("key=" + ks.String())
	if validate {
		r.Probe("validate_on")
	} else {
		r.Probe("validate_off")
	}
	// clock placement relative to the SP certificate window
	var target time.Time
	switch clk {
	case "inside":
		target = nb.Add(time.Duration(1+t.Int(500, "c07.inside")) * time.Second)
	default:
		off := map[string]time.Duration{"-1s": -time.Second, "-1ns": -time.Nanosecond, "": 0, "+1ns": time.Nanosecond, "+1s": time.Second}[clk[2:]]
		if strings.HasPrefix(clk, "nb") {
			target = nb.Add(off)
		} else {
			target = na.Add(off)
		}
		r.Fault("clock_to_sp_cert_bound")
		r.Probe("clock=" + clk)
	}
	r.Sim.SetNow(target.Add(-s.Cfg.Skew))
	now := s.Node.Now()
	inWindow := !now.Before(nb) && !now.After(na)

	foreignCert := world.MintCert(5, s.Epoch.Add(-time.Hour), s.Epoch.Add(100*time.Hour), 3)
	mkEnc := func() *world.EncOpts {
		o := world.DrawEncOpts(t, &world.Key(spKey).RSA.PublicKey, nil)
		switch embed {
		case "sp":
			o.EmbedCert = spCert.DER
		case "foreign":
			o.EmbedCert = foreignCert.DER
		default:
			o.EmbedCert = nil
		}
		return o
	}
	n := 1 + t.Int(2, "c07.n")
	m := world.GenResponse(t, s.IdP, s.Fed, now, n, false)
	if mode == "attacker-encrypt" || mode == "nested-unsigned-response" {
		if place == PlaceResponse {
			place = PlaceAssertions
		}
	}
	s.ApplyPlacement(m, place, true)
	lay := world.DrawLayout(t)
	adv := &world.Adversary{KeyIdx: 6, Cert: world.MintCert(6, s.Epoch.Add(-time.Hour), s.Epoch.Add(100*time.Hour), 0), SPPub: &world.Key(spKey).RSA.PublicKey, SPCert: spCert.DER}
	var xml, detail string
	expectNested := false
	switch mode {
	case "genuine", "nested-unsigned-response", "nested-signed-by-nonconforming-idp":
		for _, a := range m.Assertions {
			a.Encrypt = mkEnc()
			if a.Sign != nil {
				a.Sign.ExclusiveOnly()
			}
		}
		if mode == "nested-signed-by-nonconforming-idp" {
			// the IdP itself puts the EncryptedAssertion one level down and signs the Response
			saved := m.Sign
			m.Sign = nil
			x, err := s.IdP.Issue(m, lay, r.Sim.Now())
			if err != nil {
				r.HarnessError("issue: %v", err)
				return
			}
			x, ok := nestEncrypted(x)
			if !ok {
				r.HarnessError("nesting failed")
				return
			}
			if saved == nil {
				saved = world.PlainSigOpts(s.IdPKey, s.IdPCert)
			}
			// sign the restructured Response genuinely
			x = insertSigSlot(x, m.ID)
			x, err = world.SignSlot(x, m.ID, saved)
			if err != nil {
				r.HarnessError("sign nested: %v", err)
				return
			}
			xml, expectNested = x, true
			r.Fault("nonconforming_idp")
		} else {
			x, err := s.IdP.Issue(m, lay, r.Sim.Now())
			if err != nil {
				r.HarnessError("issue: %v", err)
				return
			}
			xml = x
			if mode == "nested-unsigned-response" {
				x, ok := nestEncrypted(xml)
				if !ok {
					r.HarnessError("nesting failed")
					return
				}
				xml, expectNested = x, true
				r.Fault("nest_encrypted")
			}
		}
	case "attacker-encrypt":
		if _, err := s.IdP.Issue(m, lay, r.Sim.Now()); err != nil {
			r.HarnessError("issue: %v", err)
			return
		}
		atk, ok := adv.Build(t, "attacker_encrypt", s.IdP.Msgs)
		if !ok {
			r.HarnessError("attacker_encrypt not applicable")
			return
		}
		xml, detail = atk.XML, atk.Detail
		r.Fault("attacker_encrypt")
	}
	enc := world.Present(xml, t.Int(4, "c07.compress") == 1, 6)
	if t.Int(6, "c07.ambient") == 1 {
		s.NeighbourNoise(enc)
	}
	resp, out := s.Node.ValidateResponse(enc)
	r.Steps++
	r.Logf("mode=%s (%s) embed=%s validate=%v clock=%s keyfault=%s key=%s place=%s n=%d -> %s %s", mode, detail, embed, validate, clk, keyFault, ks, placeNames[place], n, out.Class(), world.ErrClass(out.Err))
	r.Shape(fmt.Sprintf("%s.%s.%s.v%v.%s.%s.%s.%s.n%d.%s", mode, detail, embed, validate, clk, keyFault, ks, placeNames[place], n, out.Class()))
	r.Sample = obs("mode", mode, "detail", detail, "embed", embed, "validate_option", validate, "clock", clk, "now", now.Format(time.RFC3339Nano), "sp_cert_window", nb.Format(time.RFC3339)+".."+na.Format(time.RFC3339),
		"key_fault", keyFault, "key_style", ks.String(), "outcome", out.Class())
	if out.Panic != "" {
		return
	}
	ctx := obs("mode", mode, "detail", detail, "embed", embed, "validate_option", validate, "clock", clk, "now", now.Format(time.RFC3339Nano), "sp_cert_not_before", nb.Format(time.RFC3339), "sp_cert_not_after", na.Format(time.RFC3339),
		"key_fault", keyFault, "key_style", ks.String(), "place", placeNames[place], "err", fmt.Sprint(out.Err), "delivered", trunc(xml, 1800))
	if out.OK() {
		if !conservation(r, "C07", resp, []*world.IdP{s.IdP}, s.Cfg.Store.Certs, now, false, ctx) {
			return
		}
	}
	if mode == "attacker-encrypt" {
		return // conservation is the whole oracle: nothing the attacker encrypted may be accepted
	}
	if expectNested {
		if out.OK() {
			r.Fail("placement", "C07/nested-encrypted-assertion-accepted/"+mode, ctx)
		}
		return
	}
	// the accepted payload is then handed to a service provider of the same process that is configured like
	// this one but holds another decryption key (a second tenant, or this tenant after its key was replaced):
	// it cannot unwrap the key, so it cannot accept - whatever the first one has seen before
	if mode == "genuine" && keyFault == "none" && embed != "foreign" && out.OK() && t.Int(4, "c07.otherkey") == 1 {
		cfg2 := *s.Cfg
		cfg2.Live, cfg2.Name = false, "sp-holding-another-key"
		cfg2.EncKeyIdx = 9 - spKey // 4 <-> 5
		cfg2.EncCert = world.MintCert(cfg2.EncKeyIdx, nb, na, 1)
		cfg2.RejectedSetters = 0
		if n2, err := world.NewSPNode(&cfg2, r.Sim.Time); err == nil {
			_, o2 := n2.ValidateResponse(enc)
			r.Steps++
			r.Fault("same_payload_offered_to_an_sp_holding_another_key")
			r.Logf("same payload at an SP holding another key -> %s %s", o2.Class(), world.ErrClass(o2.Err))
			if o2.Panic == "" && o2.OK() {
				r.Fail("recipient", "C07/decrypted-by-an-sp-that-does-not-hold-the-key", ctx)
				return
			}
		}
	}
	// history on one live SP: after an accepted delivery inside the window the clock jumps past
	// NotAfter and a fresh genuine message arrives: with the option on it must now be refused
	if mode == "genuine" && validate && keyFault == "none" && embed != "foreign" && inWindow && out.OK() && t.Int(3, "c07.second") == 1 {
		r.Sim.SetNow(na.Add(time.Duration(1+t.Int(100, "c07.second.off")) * time.Second).Add(-s.Cfg.Skew))
		now2 := s.Node.Now()
		m2 := world.GenResponse(t, s.IdP, s.Fed, now2, 1, false)
		m2.Sign = world.PlainSigOpts(s.IdPKey, s.IdPCert)
		m2.Assertions[0].Encrypt = mkEnc()
		x2, err := s.IdP.Issue(m2, lay, r.Sim.Now())
		if err != nil {
			r.HarnessError("issue second: %v", err)
			return
		}
		r.Fault("clock_jump_past_sp_cert_window")
		_, o2 := s.Node.ValidateResponse(world.Present(x2, false, 0))
		r.Steps++
		r.Logf("second delivery after the clock left the window -> %s", o2.Class())
		if o2.OK() {
			ctx["second_now"] = now2.Format(time.RFC3339Nano)
			r.Fail("window", "C07/decrypted-outside-sp-cert-validity/after-earlier-success", ctx)
			return
		}
	}
	// genuine encrypted message
	switch {
	case embed == "foreign":
		if out.OK() {
			r.Fail("recipient", "C07/foreign-recipient-certificate-accepted", ctx)
		}
	case keyFault == "keystore-error":
		if out.OK() {
			r.Fail("keystore", "C07/keystore-error-accepted", ctx)
		}
	case validate:
		certOK := keyFault == "none"
		if out.OK() && (!certOK || !inWindow) {
			r.Fail("window", fmt.Sprintf("C07/decrypted-outside-sp-cert-validity/%s/%s", keyFault, clk), ctx)
		} else if !out.OK() && certOK && inWindow {
			r.Fail("window", fmt.Sprintf("C07/genuine-rejected-inside-window/%s", clk), ctx)
		}
	default:
		// option off: window and certificate content are irrelevant, except that an embedded
		// recipient certificate is compared with whatever the key store hands out
		if keyFault != "none" && embed == "sp" {
			return
		}
		if !out.OK() {
			r.Fail("twin", fmt.Sprintf("C07/option-off-but-rejected/%s/%s", keyFault, clk), ctx)
		}
	}
}

// nestEncrypted moves the first EncryptedAssertion of the document under a new
// Extensions element of the root.
func nestEncrypted(xml string) (string, bool) {
	d := etree.NewDocument()
	if err := d.ReadFromString(xml); err != nil {
		return xml, false
	}
	root := d.Root()
	var ea *etree.Element
	for _, c := range root.ChildElements() {
		if c.Tag == "EncryptedAssertion" {
			ea = c
			break
		}
	}
	if ea == nil {
		return xml, false
	}
	root.RemoveChild(ea)
	pfx := root.Space
	if pfx != "" {
		pfx += ":"
	}
	ext := etree.NewElement(pfx + "Extensions")
	ext.AddChild(ea)
	root.AddChild(ext)
	s, err := d.WriteToString()
	return s, err == nil
}

var issuerEnd = regexp.MustCompile(`</[A-Za-z0-9]*:?Issuer>`)

// insertSigSlot puts a signature placeholder right after the root's Issuer element.
func insertSigSlot(xml, id string) string {
	loc := issuerEnd.FindStringIndex(xml)
	if loc == nil {
		return xml
	}
	return xml[:loc[1]] + world.SigSlot(id) + xml[loc[1]:]
}
