package props

import (
	"fmt"
	"sort"
	"strings"
	"time"

	"github.com/beevik/etree"

	"verifsim/core"
	"verifsim/world"
)

// C15 — outgoing messages are well-formed, schema-ordered and faithful to configuration.
// The IdP stub receives all three kinds (signed or not) through the conforming XML front
// end and compares them with an expected document built from the configuration, the
// arguments and the SP node's clock.

type expEl struct {
	ns, tag string
	attrs   map[string]string
	text    *string
	kids    []*expEl
	anySig  bool // a ds:Signature subtree (content checked by C13)
}

func init() {
	register(&Prop{
		ID:    "C15",
		Level: "exploration",
		Rule: "seeded SP->IdP runs: message kind x signed/unsigned x every boolean / optional setting x configuration and argument strings from the hostile pool (markup, quotes, whitespace incl. CR/LF/TAB, non-ASCII) x SP clock at drawn instants (year end, leap day, sub-second) in drawn non-UTC locations with skew; " +
			"the receiver parses with a conforming front end and compares against the expected element skeleton (names, namespaces, attribute sets, schema order) and exact values; distinct = shape hash (kind, signed, optional settings, string classes, clock mode, outcome)",
		Directed:    c15Directed,
		Run:         c15Run,
		MustHit:     []string{"kind=AuthnRequest", "kind=LogoutRequest", "kind=LogoutResponse", "signed", "unsigned", "hostile_strings", "non_utc_location", "issuer_fallback", "reqctx", "year_end", "subsecond_clock", "value_with_markup", "value_with_CR", "no_issuer_configured_at_all"},
		RandomRuns:  map[string]int{"quick": 8000, "thorough": 60000},
		Assumptions: []string{"values are drawn from the XML character repertoire (NUL and other non-XML characters cannot be carried by XML at all)"},
	})
}

// draw order: encstyle, sigstyle, ecsigner, alg, canon, hostile, ... (DrawOut) then kind, signed, clockMode
func c15Directed(tier string) [][]uint64 {
	var out [][]uint64
	for h := uint64(0); h < 2; h++ {
		for es := uint64(1); es < 3; es++ {
			for i := uint64(0); i < 12; i++ {
				out = append(out, []uint64{es, 0, 0, i % 5, i % 7, h})
			}
		}
	}
	return out
}

func c15Run(r *core.Run) {
	t := r.Tape
	o := DrawOut(r, 0, false)
	kind := outKinds[t.Int(3, "c15.kind")]
	signed := t.Bool("c15.signed")
	clockMode := t.Int(5, "c15.clockmode")
	if !o.PreHistory(r) || !o.Build() {
		return
	}
	if t.Int(5, "c15.otherapi") == 1 {
		OtherAPICalls(r, o.Node.SP, 1)
	}
	switch clockMode {
	case 1:
		y := o.Epoch.Year()
		r.Sim.SetNow(time.Date(y, 12, 31, 23, 59, 59, 999999999, time.UTC).Add(-o.Cfg.Skew))
		r.Probe("year_end")
	case 2:
		r.Sim.SetNow(time.Date(2032, 2, 29, 23, 59, 59, 500000000, time.UTC).Add(-o.Cfg.Skew))
	case 3:
		r.Sim.Advance(time.Duration(t.Int(1e9, "c15.subsec")))
		r.Probe("subsecond_clock")
	case 4:
		r.Sim.Advance(time.Duration(t.Int(86400*400, "c15.advance")) * time.Second)
		if tr := nextTransition(o.Cfg.Loc, o.Node.Now()); !tr.IsZero() {
			// inside the hour around a daylight-saving transition
			r.Sim.SetNow(tr.Add(time.Duration(t.Range(-3600, 3600, "c15.arounddst")) * time.Second).Add(-o.Cfg.Skew))
			r.Probe("around_dst_transition")
		}
	}
	if o.Cfg.Loc != time.UTC {
		r.Probe("non_utc_location")
	}
	r.Probe("kind=" + kind)
	if signed {
		r.Probe("signed")
	} else {
		r.Probe("unsigned")
	}
	if o.Hostile {
		r.Probe("hostile_strings")
	}
	if o.Cfg.SPIssuer == "" {
		r.Probe("issuer_fallback")
	}
	if o.Cfg.ReqCtx != nil {
		r.Probe("reqctx")
	}
	now := o.Node.Now()
	m, out := o.BuildOut(r, kind, signed, o.Hostile)
	r.Steps++
	for _, v := range []string{o.Cfg.SPIssuer, o.Cfg.IdPIssuer, o.Cfg.IdPSSOURL, o.Cfg.IdPSLOURL, o.Cfg.ACS, o.Cfg.NameIDFormat, m.NameID, m.SessionIdx, m.ReqID, m.Status} {
		if strings.ContainsAny(v, "<>&\"'") {
			r.Probe("value_with_markup")
		}
		if strings.Contains(v, "\r") {
			r.Probe("value_with_CR")
		}
	}
	ctx := obs("kind", kind, "via", m.Via, "signed", signed, "key_config", o.KeyCfg(), "sp_now", now.Format(time.RFC3339Nano), "location", fmt.Sprint(o.Cfg.Loc), "produced", trunc(m.XML, 2500))
	shape := fmt.Sprintf("%s.s%v.h%v.cm%d.fa%v.ip%v.rc%v.nf%v.iss%v", kind, signed, o.Hostile, clockMode, o.Cfg.ForceAuthn, o.Cfg.IsPassive, o.Cfg.ReqCtx != nil, o.Cfg.NameIDFormat != "", o.Cfg.SPIssuer != "")
	r.Sample = obs("kind", kind, "via", m.Via, "signed", signed, "hostile", o.Hostile, "clock_mode", clockMode, "location", fmt.Sprint(o.Cfg.Loc), "outcome", out.Class())
	if out.Panic != "" || !out.OK() {
		ctx["err"], ctx["panic"] = fmt.Sprint(out.Err), out.Panic
		r.Shape(shape + ".fail")
		r.Fail("produce", "C15/build-failed/"+kind, ctx)
		return
	}
	r.Logf("sp built %s via %s signed=%v hostile=%v now=%s loc=%s", kind, m.Via, signed, o.Hostile, now.UTC().Format(time.RFC3339Nano), o.Cfg.Loc)
	r.Shape(shape + ".ok")
	d, err := world.ConformingParse([]byte(m.XML))
	if err != nil {
		ctx["err"] = fmt.Sprint(err)
		r.Fail("wellformed", "C15/output-not-wellformed/"+kind, ctx)
		return
	}
	// expected document
	P, A := world.NSProtocol, world.NSAssertion
	str := func(s string) *string { return &s }
	issuer := o.Cfg.SPIssuer
	if issuer == "" {
		issuer = o.Cfg.IdPIssuer
	}
	instant := now.UTC().Truncate(time.Second).Format("2006-01-02T15:04:05") + "Z"
	exp := &expEl{ns: P, tag: kind, attrs: map[string]string{"Version": "2.0", "IssueInstant": instant}}
	issuerOptional := false
	if issuer == "" {
		// nothing configured at all: an empty Issuer and no Issuer both say "no issuer"; either way the
		// remaining children stay in schema order (a signature is the first child then)
		first := d.Root().ChildElements()
		issuerOptional = len(first) == 0 || !(first[0].Tag == "Issuer" && first[0].NamespaceURI() == A)
	}
	if !issuerOptional {
		exp.kids = append(exp.kids, &expEl{ns: A, tag: "Issuer", text: str(issuer)})
	}
	if signed {
		exp.kids = append(exp.kids, &expEl{ns: world.NSDsig, tag: "Signature", anySig: true})
	}
	switch kind {
	case "AuthnRequest":
		exp.attrs["Destination"] = o.Cfg.IdPSSOURL
		exp.attrs["ProtocolBinding"] = "urn:oasis:names:tc:SAML:2.0:bindings:HTTP-POST"
		exp.attrs["AssertionConsumerServiceURL"] = o.Cfg.ACS
		if o.Cfg.ForceAuthn {
			exp.attrs["ForceAuthn"] = "true"
		}
		if o.Cfg.IsPassive {
			exp.attrs["IsPassive"] = "true"
		}
		nip := &expEl{ns: P, tag: "NameIDPolicy", attrs: map[string]string{"AllowCreate": "true"}}
		if o.Cfg.NameIDFormat != "" {
			nip.attrs["Format"] = o.Cfg.NameIDFormat
		}
		exp.kids = append(exp.kids, nip)
		if rc := o.Cfg.ReqCtx; rc != nil {
			e := &expEl{ns: P, tag: "RequestedAuthnContext", attrs: map[string]string{"Comparison": rc.Comparison}}
			for _, c := range rc.Contexts {
				e.kids = append(e.kids, &expEl{ns: A, tag: "AuthnContextClassRef", text: str(c)})
			}
			exp.kids = append(exp.kids, e)
		}
	case "LogoutRequest":
		exp.attrs["Destination"] = o.Cfg.IdPSLOURL
		exp.kids = append(exp.kids, &expEl{ns: A, tag: "NameID", attrs: map[string]string{"Format": o.Cfg.NameIDFormat}, text: str(m.NameID)})
		exp.kids = append(exp.kids, &expEl{ns: P, tag: "SessionIndex", text: str(m.SessionIdx)})
	default:
		exp.attrs["Destination"] = o.Cfg.IdPSLOURL
		exp.attrs["InResponseTo"] = m.ReqID
		exp.kids = append(exp.kids, &expEl{ns: P, tag: "Status", kids: []*expEl{{ns: P, tag: "StatusCode", attrs: map[string]string{"Value": m.Status}}}})
	}
	if why, detail := c15Compare(d.Root(), exp, "/"+kind, true); why != "" {
		ctx["difference"], ctx["detail"] = why, detail
		r.Fail("faithful", "C15/"+why, ctx)
	}
}

// c15Compare checks element name, namespace, attribute set and values, text and the
// ordered list of child elements.
func c15Compare(el *etree.Element, exp *expEl, path string, isRoot bool) (string, string) {
	if el.Tag != exp.tag || el.NamespaceURI() != exp.ns {
		return "unexpected-element", fmt.Sprintf("%s: got {%s}%s want {%s}%s", path, el.NamespaceURI(), el.Tag, exp.ns, exp.tag)
	}
	if exp.anySig {
		return "", ""
	}
	got := map[string]string{}
	for _, a := range el.Attr {
		if a.Space == "xmlns" || (a.Space == "" && a.Key == "xmlns") {
			continue
		}
		k := a.Key
		if a.Space != "" {
			k = a.Space + ":" + a.Key
		}
		if _, dup := got[k]; dup {
			return "duplicate-attribute", path + "/@" + k
		}
		got[k] = a.Value
	}
	if isRoot {
		id, ok := got["ID"]
		if !ok || id == "" {
			return "missing-ID", path
		}
		delete(got, "ID")
	}
	var keys []string
	for k := range exp.attrs {
		keys = append(keys, k)
	}
	sort.Strings(keys)
	for _, k := range keys {
		g, ok := got[k]
		if !ok {
			return "missing-attribute/" + k, path
		}
		if g != exp.attrs[k] {
			return "value-not-recovered/@" + k, fmt.Sprintf("%s: got %q want %q", path, g, exp.attrs[k])
		}
		delete(got, k)
	}
	for k := range got {
		return "unexpected-attribute", path + "/@" + k
	}
	kids := el.ChildElements()
	if exp.text != nil {
		if len(kids) != 0 {
			return "value-altered-structure", path + " has child elements"
		}
		if el.Text() != *exp.text {
			// Text() returns the leading character data; compare all of it
			var sb strings.Builder
			for _, c := range el.Child {
				if cd, ok := c.(*etree.CharData); ok {
					sb.WriteString(cd.Data)
				}
			}
			if sb.String() != *exp.text {
				return "value-not-recovered/" + exp.tag, fmt.Sprintf("%s: got %q want %q", path, sb.String(), *exp.text)
			}
		}
		return "", ""
	}
	if len(kids) != len(exp.kids) {
		var names []string
		for _, k := range kids {
			names = append(names, k.Tag)
		}
		return "unexpected-children", fmt.Sprintf("%s: got %v, want %d children", path, names, len(exp.kids))
	}
	for _, c := range el.Child {
		if cd, ok := c.(*etree.CharData); ok && strings.TrimSpace(cd.Data) != "" {
			return "unexpected-text", path
		}
	}
	for i := range kids {
		if why, d := c15Compare(kids[i], exp.kids[i], path+"/"+exp.kids[i].tag, false); why != "" {
			return why, d
		}
	}
	return "", ""
}
