package props

import (
	"errors"
	"fmt"
	"strings"
	"time"

	saml2 "github.com/russellhaering/gosaml2"
	"github.com/russellhaering/gosaml2/types"

	"verifsim/core"
	"verifsim/world"
)

// C03 — acceptance implies every SSO profile check passed, for every assertion.
// A non-conforming IdP node signs genuinely but is wrong in exactly one respect, at a
// drawn assertion position; the transport may mis-deliver a response minted for the
// other SP or delay it past expiry.

type errSpec struct {
	typ   string // missing | invalid | parsing
	names []string
}

// c03Faults: index 0 = conforming.
var c03Faults = []string{
	"none",
	"version-wrong", "version-absent", "destination-wrong",
	"resp-issuer-missing", "resp-issuer-wrong",
	"status-missing", "statuscode-missing", "status-nonsuccess", "status-nested-success-under-failure", "zero-assertions",
	"a-issuer-missing", "a-issuer-wrong", "a-subject-missing", "a-subjconf-missing", "a-method-wrong",
	"a-scd-missing", "a-recipient-missing", "a-recipient-wrong", "a-nooa-missing", "a-nooa-malformed", "a-nooa-expired",
	"misroute-other-sp", "delay-past-expiry",
	// an element called Issuer from a namespace that is not SAML's, carrying the expected value, instead
	// of / after a saml:Issuer that names somebody else: it is not the Issuer
	"resp-issuer-only-foreign-ns", "resp-issuer-wrong-then-foreign-ns", "a-issuer-only-foreign-ns", "a-issuer-wrong-then-foreign-ns",
}

func c03Expect(f string) []errSpec {
	switch f {
	case "version-wrong", "version-absent":
		return []errSpec{{"invalid", []string{"version"}}}
	case "destination-wrong":
		return []errSpec{{"invalid", []string{"destination"}}}
	case "resp-issuer-missing", "a-issuer-missing":
		return []errSpec{{"missing", []string{"issuer"}}}
	case "resp-issuer-only-foreign-ns", "resp-issuer-wrong-then-foreign-ns", "a-issuer-only-foreign-ns", "a-issuer-wrong-then-foreign-ns":
		// the message is also malformed (an element the schema has no place for): any rejection will do
		return []errSpec{{"any", nil}}
	case "resp-issuer-wrong", "a-issuer-wrong":
		return []errSpec{{"invalid", []string{"issuer"}}}
	case "status-missing":
		return []errSpec{{"missing", []string{"status"}}}
	case "statuscode-missing":
		return []errSpec{{"missing", []string{"statuscode"}}}
	case "status-nonsuccess", "status-nested-success-under-failure":
		return []errSpec{{"invalid", []string{"statuscode", "status"}}}
	case "zero-assertions":
		return []errSpec{{"missing", []string{"assertion"}}}
	case "a-subject-missing":
		return []errSpec{{"missing", []string{"subject"}}}
	case "a-subjconf-missing":
		return []errSpec{{"missing", []string{"subjectconfirmation"}}}
	case "a-method-wrong":
		return []errSpec{{"invalid", []string{"subjectconfirmation", "method"}}}
	case "a-scd-missing":
		return []errSpec{{"missing", []string{"subjectconfirmationdata"}}}
	case "a-recipient-missing":
		return []errSpec{{"invalid", []string{"recipient"}}, {"missing", []string{"recipient"}}}
	case "a-recipient-wrong":
		return []errSpec{{"invalid", []string{"recipient"}}}
	case "a-nooa-missing":
		return []errSpec{{"missing", []string{"notonorafter"}}}
	case "a-nooa-malformed":
		return []errSpec{{"parsing", []string{"notonorafter"}}}
	case "a-nooa-expired", "delay-past-expiry":
		return []errSpec{{"invalid", []string{"notonorafter"}}}
	case "misroute-other-sp":
		return []errSpec{{"invalid", []string{"destination"}}, {"invalid", []string{"recipient"}}}
	}
	return nil
}

func errMatches(err error, specs []errSpec) bool {
	for _, s := range specs {
		if s.typ == "any" && err != nil {
			return true
		}
	}
	// errors.As: a typed error stays typed when a refactor wraps it
	var ev saml2.ErrVerification
	if errors.As(err, &ev) && ev.Cause != nil {
		err = ev.Cause
	}
	var typ string
	var names []string
	var em saml2.ErrMissingElement
	var ei saml2.ErrInvalidValue
	var ep saml2.ErrParsing
	switch {
	case errors.As(err, &em):
		typ, names = "missing", []string{em.Tag, em.Attribute}
	case errors.As(err, &ei):
		typ, names = "invalid", []string{ei.Key}
	case errors.As(err, &ep):
		typ, names = "parsing", []string{ep.Tag}
	default:
		return false
	}
	for _, s := range specs {
		if s.typ != typ {
			continue
		}
		for _, n := range names {
			ln := strings.ToLower(strings.ReplaceAll(n, " ", ""))
			for _, w := range s.names {
				if ln != "" && (ln == w || strings.Contains(ln, w)) {
					return true
				}
			}
		}
	}
	return false
}

func init() {
	register(&Prop{
		ID:    "C03",
		Level: "exploration",
		Rule: "seeded federation runs: a non-conforming IdP node (wrong in exactly one of 22 respects, at a drawn assertion position 1..n) signs genuinely (Response / assertions / both / unsigned with checking off), " +
			"transport may misroute a response minted for the other SP or delay past expiry; oracle (a) every accept satisfies the reference profile model on the returned structure, (b) a single fault yields the typed error naming the element; " +
			"directed prefix: fault kind x position x n x placement x issuer configured or not; distinct = shape hash (fault, position, n, placement, issuer-configured, layout, outcome class)",
		Directed:   c03Directed,
		Run:        c03Run,
		MustHit:    []string{"nonconforming_idp", "misroute", "delay_past_expiry", "position>0", "place=R", "place=A", "place=RA", "place=none", "issuer_unconfigured", "redelivery_after_change", "encrypted_only_with_checking_off", "assertions_encrypted", "validate_called_directly", "assertion_without_authn_statement", "earlier_delivery_rejected_while_decoding"},
		RandomRuns: map[string]int{"quick": 8000, "thorough": 60000},
		Assumptions: []string{"error identity is compared by Go type and by the SAML element/attribute name it carries, never by message text",
			"a fault is injected alone; with several simultaneous violations any of the corresponding errors is allowed"},
	})
}

// draw order: fault, n, pos, place, issuerCfg, encrypted
func c03Directed(tier string) [][]uint64 {
	var out [][]uint64
	// every assertion travels encrypted (with checking off the SP never decrypts: nothing is left to accept)
	for f := uint64(0); f < uint64(len(c03Faults)); f++ {
		for place := uint64(0); place < 4; place++ {
			if tier == "quick" && (f+place)%3 != 0 && f != 0 {
				continue
			}
			out = append(out, []uint64{f, f % 2, 0, place, 0, 1})
		}
	}
	for f := uint64(0); f < uint64(len(c03Faults)); f++ {
		for n := uint64(0); n < 3; n++ {
			for pos := uint64(0); pos <= n; pos++ {
				for place := uint64(0); place < 4; place++ {
					for ic := uint64(0); ic < 2; ic++ {
						if tier == "quick" && (f+n+pos+place+ic)%4 != 0 {
							continue
						}
						out = append(out, []uint64{f, n, pos, place, ic})
					}
				}
			}
		}
	}
	return out
}

func c03Run(r *core.Run) {
	t := r.Tape
	fi := t.Int(len(c03Faults)+7, "c03.fault")
	if fi >= len(c03Faults) {
		fi = 0
	}
	n := 1 + t.Int(3, "c03.n")
	pos := t.Int(n, "c03.pos")
	place := t.Int(4, "c03.place")
	issuerCfg := t.Int(2, "c03.issuercfg") == 0
	encrypted := t.Int(6, "c03.enc") == 1
	fault := c03Faults[fi]

	s := NewStd(r)
	s.DrawLive()
	s.DrawClockKnobs()
	s.Cfg.SkipSig = place == PlaceNone
	spKey := 4
	spCert := world.MintCert(spKey, s.Epoch.Add(-40*24*time.Hour), s.Epoch.Add(800*24*time.Hour), 1)
	if encrypted {
		s.Cfg.EncStyle, s.Cfg.EncKeyIdx, s.Cfg.EncCert = world.KeyField, spKey, spCert
		r.Fault("assertions_encrypted")
	}
	if !issuerCfg {
		s.Cfg.IdPIssuer = ""
		r.Probe("issuer_unconfigured")
	}
	s.Cfg.AllowMissing = true
	if !s.Build() {
		return
	}
	now := s.Node.Now()
	fed := s.Fed
	if fault == "misroute-other-sp" {
		fed.ACS = "https://other-sp.example/acs"
		r.Fault("misroute")
	}
	m := world.GenResponse(t, s.IdP, fed, now, n, false)
	if fault == "misroute-other-sp" {
		// the message was minted for the other SP: addressed to it at both levels
		m.Destination = strp(fed.ACS)
	}
	a := m.Assertions[pos]
	goodIssuer := s.Fed.IdPIssuer
	wrongIssuer := []string{"https://evil-idp.example/meta", " " + goodIssuer, goodIssuer + " ", "\n\t" + goodIssuer + "\n", goodIssuer + "/", strings.ToUpper(goodIssuer), goodIssuer + "\u00a0", "x" + goodIssuer}[t.Int(8, "c03.issuer")]
	switch fault {
	case "version-wrong":
		m.Version = []string{"1.1", "2.00", "2", "3.0"}[t.Int(4, "c03.version")]
	case "version-absent":
		m.Version = ""
	case "destination-wrong":
		m.Destination = strp([]string{"https://other-sp.example/acs", s.Fed.ACS + "/", strings.ToUpper(s.Fed.ACS), s.Fed.ACS + "?x=1", " " + s.Fed.ACS}[t.Int(5, "c03.dest")])
	case "resp-issuer-missing":
		m.Issuer = nil
	case "resp-issuer-wrong":
		m.Issuer = strp(wrongIssuer)
	case "status-missing":
		m.HasStatus = false
	case "statuscode-missing":
		m.HasStatusCode = false
	case "status-nonsuccess":
		m.StatusCode = []string{"urn:oasis:names:tc:SAML:2.0:status:Requester", "urn:oasis:names:tc:SAML:2.0:status:Responder", "", "urn:oasis:names:tc:SAML:2.0:status:success"}[t.Int(4, "c03.status")]
	case "status-nested-success-under-failure":
		m.StatusCode = "urn:oasis:names:tc:SAML:2.0:status:Responder"
		m.SubStatusCode = strp(world.StatusOK)
	case "zero-assertions":
		m.Assertions = nil
	case "a-issuer-missing":
		a.Issuer = nil
	case "resp-issuer-only-foreign-ns":
		m.Issuer, m.ForeignIssuer = nil, strp(goodIssuer)
	case "resp-issuer-wrong-then-foreign-ns":
		m.Issuer, m.ForeignIssuer = strp("https://evil-idp.example/meta"), strp(goodIssuer)
	case "a-issuer-only-foreign-ns":
		a.Issuer, a.ForeignIssuer = nil, strp(goodIssuer)
	case "a-issuer-wrong-then-foreign-ns":
		a.Issuer, a.ForeignIssuer = strp("https://evil-idp.example/meta"), strp(goodIssuer)
	case "a-issuer-wrong":
		a.Issuer = strp(wrongIssuer)
	case "a-subject-missing":
		a.HasSubject = false
	case "a-subjconf-missing":
		a.HasSubjConf = false
	case "a-method-wrong":
		a.Method = []string{"urn:oasis:names:tc:SAML:2.0:cm:holder-of-key", "urn:oasis:names:tc:SAML:2.0:cm:sender-vouches", "", "bearer"}[t.Int(4, "c03.method")]
	case "a-scd-missing":
		a.HasSCD = false
	case "a-recipient-missing":
		a.Recipient = nil
	case "a-recipient-wrong":
		a.Recipient = strp([]string{"https://other-sp.example/acs", s.Fed.ACS + "/", s.Fed.ACS + "?x=1", strings.ToUpper(s.Fed.ACS)}[t.Int(4, "c03.recipient")])
	case "a-nooa-missing":
		a.SCNotOnOrAfter = nil
	case "a-nooa-malformed":
		a.SCNotOnOrAfter = strp(c05BadBounds[1+t.Int(len(c05BadBounds)-1, "c03.malformed")])
	case "a-nooa-expired":
		a.SCNotOnOrAfter = strp(world.RenderInstant(now.Add(-time.Duration(1+t.Int(1000, "c03.expired"))*time.Second).Truncate(time.Second), world.InstantForm{}))
	}
	// assertions without an AuthnStatement (attribute-only assertions are legal; the profile checks apply
	// to them all the same): 1 the assertion at the drawn position, 2 all, 3 all others
	if na := t.Int(6, "c03.noauthn"); na >= 1 && na <= 3 {
		for i, x := range m.Assertions {
			if (na == 1 && i == pos) || na == 2 || (na == 3 && i != pos) {
				x.Authn = nil
			}
		}
		r.Probe("assertion_without_authn_statement")
	}
	if fault != "none" && fault != "misroute-other-sp" && fault != "delay-past-expiry" {
		r.Fault("nonconforming_idp")
	}
	if pos > 0 {
		r.Probe("position>0")
	}
	r.Probe("place=" + placeNames[place])
	s.ApplyPlacement(m, place, t.Chance(800, "c03.plainsig"))
	if encrypted {
		for _, x := range m.Assertions {
			x.Encrypt = world.DrawEncOpts(t, &world.Key(spKey).RSA.PublicKey, spCert.DER)
			if x.Sign != nil {
				x.Sign.ExclusiveOnly()
			}
		}
	}
	lay := world.DrawLayout(t)
	xml, err := s.IdP.Issue(m, lay, r.Sim.Now())
	if err != nil {
		r.HarnessError("issue: %v", err)
		return
	}
	r.Logf("idp issue fault=%s n=%d pos=%d place=%s issuerCfg=%v layout=%s", fault, n, pos, placeNames[place], issuerCfg, lay.Sig())
	if fault == "delay-past-expiry" {
		r.Sim.Advance(time.Duration(700+t.Int(5000, "c03.delay")) * time.Second)
		r.Fault("delay_past_expiry")
	} else {
		r.Sim.Advance(time.Duration(t.Int(30, "c03.delay")) * time.Second)
	}
	now = s.Node.Now()
	enc := world.Present(xml, t.Bool("c03.compress"), 6)
	switch t.Int(8, "c03.ambient") {
	case 1:
		s.NeighbourNoise(enc)
	case 2:
		s.WarmUpThenReconfigure(enc)
	case 4:
		OtherAPICalls(r, s.Node.SP, 7)
	case 3:
		// an earlier delivery that was complete where this one is not, and that the SP had to turn down
		// half-way through decoding (AuthnInstant of the assertion at the same position is not a dateTime):
		// nothing of it may be found in the outcome of the delivery under test
		pm := world.GenResponse(t, s.IdP, fed, now, n, false)
		if pa := pm.Assertions[pos]; pa.Authn != nil {
			pa.Authn.AuthnInstant = strp([]string{"yesterday", "2001-01-01", ""}[t.Int(3, "c03.prior.bad")])
			pa.NameID = strp("mallory@prior.example")
			s.ApplyPlacement(pm, place, true)
			if pxml, err := s.IdP.Issue(pm, world.Layout{}, r.Sim.Now()); err == nil {
				penc := world.Present(pxml, false, 6)
				var po world.Outcome
				if t.Bool("c03.prior.retrieve") {
					_, po = s.Node.Retrieve(penc)
				} else {
					_, po = s.Node.ValidateResponse(penc)
				}
				r.Steps++
				r.Fault("earlier_delivery_rejected_while_decoding")
				r.Logf("prior undecodable delivery -> %s %s", po.Class(), world.ErrClass(po.Err))
			}
		}
	}
	useRetrieve := t.Bool("c03.retrieve")
	var out world.Outcome
	var got world.NResponse
	if useRetrieve {
		ai, o := s.Node.Retrieve(enc)
		out = o
		if o.OK() {
			for i := range ai.Assertions {
				got.Assertions = append(got.Assertions, world.NormAssertion(&ai.Assertions[i]))
			}
		}
	} else {
		resp, o := s.Node.ValidateResponse(enc)
		out = o
		if o.OK() {
			got = world.NormResponse(resp)
		}
	}
	r.Steps++
	r.Logf("sp %v -> %s %s", useRetrieve, out.Class(), world.ErrClass(out.Err))
	r.Shape(fmt.Sprintf("%s.n%d.p%d.%s.ic%v.%s.r%v.%s", fault, n, pos, placeNames[place], issuerCfg, lay.Sig(), useRetrieve, out.Class()))
	r.Sample = obs("fault", fault, "n", n, "position", pos, "place", placeNames[place], "issuer_configured", issuerCfg, "outcome", out.Class(), "err", world.ErrClass(out.Err))
	if out.Panic != "" {
		return
	}
	ctx := obs("fault", fault, "n", n, "position", pos, "place", placeNames[place], "issuer_configured", issuerCfg, "entry", map[bool]string{true: "RetrieveAssertionInfo", false: "ValidateEncodedResponse"}[useRetrieve])

	// (a) soundness on whatever was accepted
	if out.OK() {
		if why := profileModel(got, s.Cfg, now, !useRetrieve); why != "" {
			ctx["violated"] = why
			ctx["returned"] = trunc(world.J(got), 1200)
			r.Fail("soundness", "C03/accepted-but-model-rejects/"+why, ctx)
			return
		}
	}
	// the exported Validate called directly on a Response the application decoded itself (no signature
	// involved): the same profile checks decide
	violatesD := fault != "none" && !(!issuerCfg && (fault == "resp-issuer-wrong" || fault == "a-issuer-wrong" || strings.HasSuffix(fault, "-wrong-then-foreign-ns")))
	if !encrypted && t.Int(4, "c03.direct") == 1 && !r.Failed() {
		dr := &types.Response{}
		if err := world.AppDecode(xml, dr); err == nil {
			do := world.Guard(func() error { return s.Node.SP.Validate(dr) })
			r.Steps++
			r.Probe("validate_called_directly")
			r.Logf("direct Validate -> %s %s", do.Class(), world.ErrClass(do.Err))
			dctx := obs("entry", "Validate(decoded struct)", "fault", fault, "n", n, "position", pos, "issuer_configured", issuerCfg, "err", fmt.Sprint(do.Err))
			switch {
			case do.Panic != "":
			case violatesD && do.OK():
				r.Fail("reject", "C03/fault-accepted-by-direct-validate/"+fault, dctx)
				return
			case violatesD && !errMatches(do.Err, c03Expect(fault)):
				r.Fail("typed-error", "C03/wrong-error-from-direct-validate/"+fault+"/"+world.ErrClass(do.Err), dctx)
				return
			case !violatesD && !do.OK():
				r.Fail("completeness", "C03/conforming-rejected-by-direct-validate/"+world.ErrClass(do.Err), dctx)
				return
			}
		}
	}
	// redelivery of an accepted payload to the same SP after the application changed the consumer
	// URL, or after the clock passed every expiry: acceptance must not be remembered
	if out.OK() && t.Int(3, "c03.redeliver") == 1 {
		what := t.Int(3, "c03.redeliver.what")
		sp := s.Node.SP
		var want []errSpec
		switch what {
		case 0:
			sp.AssertionConsumerServiceURL = "https://moved-sp.example/acs"
			want = []errSpec{{"invalid", []string{"destination"}}, {"invalid", []string{"recipient"}}}
		case 1:
			if sp.IdentityProviderIssuer == "" {
				want = nil
			} else {
				sp.IdentityProviderIssuer = "https://other-idp.example/meta"
				want = []errSpec{{"invalid", []string{"issuer"}}}
			}
		default:
			r.Sim.Advance(2 * time.Hour)
			want = []errSpec{{"invalid", []string{"notonorafter"}}}
		}
		if want != nil {
			r.Fault("redelivery_after_change")
			var o2 world.Outcome
			if useRetrieve {
				_, o2 = s.Node.Retrieve(enc)
			} else {
				_, o2 = s.Node.ValidateResponse(enc)
			}
			r.Steps++
			r.Logf("redelivery after change %d -> %s %s", what, o2.Class(), world.ErrClass(o2.Err))
			if o2.Panic == "" && (o2.OK() || !errMatches(o2.Err, want)) {
				ctx["change"], ctx["second_err"] = what, fmt.Sprint(o2.Err)
				r.Fail("reject", fmt.Sprintf("C03/redelivery-after-change-not-rejected/%d", what), ctx)
				return
			}
		}
	}
	// (b) the injected fault
	violates := fault != "none"
	if !issuerCfg && (fault == "resp-issuer-wrong" || fault == "a-issuer-wrong") {
		violates = false // any issuer is fine when none is configured
	}
	if !issuerCfg && strings.HasSuffix(fault, "-wrong-then-foreign-ns") {
		return // any issuer is fine, and the stray element is not something the profile speaks about
	}
	expect := c03Expect(fault)
	if encrypted && place == PlaceNone && len(m.Assertions) > 0 {
		// with checking off nothing is decrypted: no assertion is available, whatever else is wrong
		// with the (invisible) assertions; Response-level faults keep their own error
		r.Probe("encrypted_only_with_checking_off")
		if !violates || strings.HasPrefix(fault, "a-") || fault == "delay-past-expiry" || fault == "misroute-other-sp" {
			violates = true
			expect = []errSpec{{"missing", []string{"assertion"}}}
			if fault == "misroute-other-sp" {
				expect = append(expect, errSpec{"invalid", []string{"destination"}})
			}
		} else {
			expect = append(expect, errSpec{"missing", []string{"assertion"}})
		}
	}
	if !violates {
		if !out.OK() {
			ctx["err"] = fmt.Sprint(out.Err)
			r.Fail("completeness", "C03/conforming-rejected/"+world.ErrClass(out.Err), ctx)
		}
		return
	}
	if out.OK() {
		r.Fail("reject", "C03/fault-accepted/"+fault, ctx)
		return
	}
	if !errMatches(out.Err, expect) {
		ctx["err"] = fmt.Sprint(out.Err)
		ctx["class"] = world.ErrClass(out.Err)
		r.Fail("typed-error", "C03/wrong-error/"+fault+"/"+world.ErrClass(out.Err), ctx)
	}
}

// profileModel is the reference SSO profile check applied to a returned structure.
// full=false means only the assertion list is available (AssertionInfo).
func profileModel(g world.NResponse, cfg *world.SPConfig, now time.Time, full bool) string {
	if full {
		if g.Version != "2.0" {
			return "Version"
		}
		if g.Destination != "" && g.Destination != cfg.ACS {
			return "Destination"
		}
		if g.Issuer == nil {
			return "Issuer-missing"
		}
		if cfg.IdPIssuer != "" && *g.Issuer != cfg.IdPIssuer {
			return "Issuer"
		}
		if g.StatusCode == nil || *g.StatusCode != world.StatusOK {
			return "Status"
		}
	}
	if len(g.Assertions) == 0 {
		return "no-assertion"
	}
	for i, a := range g.Assertions {
		p := fmt.Sprintf("assertion%d.", i)
		if a.Issuer == nil {
			return p + "Issuer-missing"
		}
		if cfg.IdPIssuer != "" && *a.Issuer != cfg.IdPIssuer {
			return p + "Issuer"
		}
		if a.Subject == nil || a.Subject.SC == nil {
			return p + "SubjectConfirmation"
		}
		if a.Subject.SC.Method != world.Bearer {
			return p + "Method"
		}
		if a.Subject.SC.SCD == nil {
			return p + "SubjectConfirmationData"
		}
		if a.Subject.SC.SCD.Recipient != cfg.ACS {
			return p + "Recipient"
		}
		tm, err := time.Parse(time.RFC3339, a.Subject.SC.SCD.NotOnOrAfter)
		if err != nil {
			return p + "NotOnOrAfter-unparsable"
		}
		if !now.Before(tm) {
			return p + "NotOnOrAfter-expired"
		}
	}
	return ""
}
