//go:build conc

package props

import (
	"crypto/rand"
	"crypto/sha256"
	"encoding/hex"
	"fmt"
	"io"
	"os"
	"runtime/debug"
	"strings"
	"sync"
	"sync/atomic"
	"time"

	"github.com/russellhaering/gosaml2/verifsim"

	"verifsim/core"
)

// ---- controlled-concurrency harness (build B of DESIGN.md) ------------------------------------
//
// Tasks are real goroutines of the instrumented library copy; exactly one runs at a time;
// the controller (this goroutine, owner of the tape) decides at yield points who runs next.

type schedStats struct {
	Switches   int
	Yields     int
	Blocked    int
	Signature  string // hash of the context-switch sequence with yield sites
	Deadlock   bool
	Stuck      bool
	Preemptive bool
	Spawned    int // goroutines started by the library and scheduled as tasks
	Leftover   int // of those, still waiting when every API call had returned
}

var schedStrategies = []string{"sequential", "random-walk", "pct", "switch-at-locks", "round-robin-fine"}

// runTasks runs bodies concurrently under the seeded scheduler.
func runTasks(r *core.Run, bodies []func(), strategy string) schedStats {
	t := r.Tape
	n := len(bodies)
	st := schedStats{}
	var panicMu sync.Mutex
	taskPanic := ""
	verifsim.Start(n)
	var wg sync.WaitGroup
	for i := range bodies {
		wg.Add(1)
		go func(i int) {
			defer wg.Done() // the only real happens-before edge a task contributes: at its very end
			verifsim.TaskMain(i, func() {
				defer func() {
					if rec := recover(); rec != nil {
						panicMu.Lock()
						if taskPanic == "" {
							taskPanic = fmt.Sprintf("%v\n%s", rec, debug.Stack())
						}
						panicMu.Unlock()
					}
				}()
				bodies[i]()
			})
		}(i)
	}
	defer func() {
		// a task that panicked: inside the library under ordinary use it is an outcome of the system under
		// test; anywhere else it is harness trouble
		panicMu.Lock()
		tp := taskPanic
		panicMu.Unlock()
		if tp == "" {
			return
		}
		if fn := core.LibraryPanicSite(tp); fn != "" {
			r.Fail("totality", r.Prop+"/library-panic-under-ordinary-use/"+fn, map[string]any{"stack": trunc(tp, 3000)})
		} else {
			r.HarnessError("task panic: %s", trunc(tp, 3000))
		}
	}()
	done := make([]bool, n)
	blocked := make([]bool, n)
	remaining := n
	static := n // tasks 0..static-1 are the API calls of the workload; later ones are goroutines the library started
	h := sha256.New()
	// PCT-style priorities and change points
	prio := make([]int, n)
	for i := range prio {
		prio[i] = i
	}
	if strategy == "pct" {
		for i := n - 1; i > 0; i-- {
			j := t.Int(i+1, "sched.prio")
			prio[i], prio[j] = prio[j], prio[i]
		}
	}
	changeAt := map[int]bool{}
	if strategy == "pct" {
		for k := 0; k < 1+t.Int(3, "sched.nchange"); k++ {
			changeAt[1+t.Int(3000, "sched.changeat")] = true
		}
	}
	cur := 0
	if strategy != "sequential" {
		cur = t.Int(n, "sched.first")
	}
	budget := 0 // yields the current task may still run before the next decision (random walk)
	// register tasks created by go statements of the library
	adopt := func(from, to int) {
		for id := from; id < to; id++ {
			for len(done) <= id {
				done = append(done, false)
				blocked = append(blocked, false)
				prio = append(prio, -1-len(prio)) // below every initial priority
				remaining++
				n++
			}
			fmt.Fprintf(h, "s%d;", id)
			st.Spawned++
		}
	}
	staticLeft := func() bool {
		for i := 0; i < static; i++ {
			if !done[i] {
				return true
			}
		}
		return false
	}
	pickOther := func(exclude int) int {
		var c []int
		for i := 0; i < n; i++ {
			if !done[i] && !blocked[i] && i != exclude {
				c = append(c, i)
			}
		}
		if len(c) == 0 {
			return -1
		}
		if strategy == "pct" {
			best := c[0]
			for _, i := range c {
				if prio[i] > prio[best] {
					best = i
				}
			}
			return best
		}
		return c[t.Int(len(c), "sched.pick")]
	}
	type res struct{ req verifsim.Request }
	for remaining > 0 {
		if !staticLeft() {
			// every API call has returned; goroutines the library left behind (workers parked on a
			// channel, ...) are not awaited: they are released when the scheduler is removed
			allBlocked := true
			for i := static; i < n; i++ {
				if !done[i] && !blocked[i] {
					allBlocked = false
				}
			}
			if allBlocked {
				st.Leftover = remaining
				remaining = 0
				break
			}
		}
		if done[cur] || blocked[cur] {
			nx := pickOther(cur)
			if nx < 0 {
				// everything unfinished is blocked on a lock: let blocked tasks retry once
				any := false
				for i := 0; i < n; i++ {
					if !done[i] && blocked[i] {
						any = true
					}
				}
				if !any {
					break
				}
				if st.Blocked > 200000 {
					st.Deadlock = true
					break
				}
				for i := 0; i < n; i++ {
					blocked[i] = false
				}
				nx = pickOther(-1)
				if nx < 0 {
					break
				}
			}
			if nx != cur {
				st.Switches++
			}
			cur = nx
		}
		// let cur run until its next request (watchdog: a task stuck outside yield points)
		ch := make(chan verifsim.Request, 1)
		go func(id int) { ch <- verifsim.Run(id) }(cur)
		var req verifsim.Request
		select {
		case req = <-ch:
		case <-time.After(60 * time.Second):
			st.Stuck = true
			r.HarnessError("task %d never reached a yield point (unmodelled blocking primitive?)", cur)
			return st
		}
		st.Yields++
		adopt(req.SpawnFrom, req.SpawnTo)
		if req.Done {
			done[cur] = true
			remaining--
			for i := range blocked {
				blocked[i] = false
			}
			fmt.Fprintf(h, "d%d;", cur)
			continue
		}
		if req.Blocked {
			blocked[cur] = true
			st.Blocked++
			continue
		}
		// a successful step un-blocks the others (a lock may have been released)
		for i := range blocked {
			if i != cur {
				blocked[i] = false
			}
		}
		// decision: continue or preempt
		sw := false
		switch strategy {
		case "sequential":
		case "random-walk":
			if budget <= 0 {
				budget = 1 + t.Int(400, "sched.runlen")
				sw = st.Yields > 1
			}
			budget--
		case "round-robin-fine":
			if budget <= 0 {
				budget = 1 + t.Int(6, "sched.runlen")
				sw = true
			}
			budget--
		case "pct":
			if changeAt[st.Yields] {
				prio[cur] = -st.Yields // drops below everyone
				sw = true
			}
		case "switch-at-locks":
			if budget <= 0 {
				budget = 1 + t.Int(1500, "sched.runlen")
				sw = st.Yields > 1
			}
			budget--
		}
		if sw {
			if nx := pickOther(cur); nx >= 0 {
				fmt.Fprintf(h, "%d@%d>%d;", cur, req.Site, nx)
				cur = nx
				st.Switches++
				st.Preemptive = true
			}
		}
	}
	if remaining > 0 && !st.Deadlock {
		st.Deadlock = true
	}
	if st.Deadlock {
		verifsim.Stop()
		return st // tasks are parked for good; the process exits after reporting
	}
	wg.Wait()
	verifsim.Stop()
	st.Signature = hex.EncodeToString(h.Sum(nil)[:8])
	return st
}

// ---- race log ----------------------------------------------------------------------------------

func raceLogPath() string {
	p := os.Getenv("VERIF_RACELOG")
	if p == "" {
		return ""
	}
	return fmt.Sprintf("%s.%d", p, os.Getpid())
}

func raceLogSize() int64 {
	p := raceLogPath()
	if p == "" {
		return 0
	}
	fi, err := os.Stat(p)
	if err != nil {
		return 0
	}
	return fi.Size()
}

func raceLogTail(from int64) string {
	p := raceLogPath()
	f, err := os.Open(p)
	if err != nil {
		return ""
	}
	defer f.Close()
	f.Seek(from, io.SeekStart)
	b, _ := io.ReadAll(io.LimitReader(f, 8<<20))
	return string(b)
}

// libraryRaces keeps the race reports whose two accesses are both made by library (or
// dependency) code. A report in which one of the accesses is made by a harness function
// (the entropy seam, the scheduler runtime, the controller) concerns harness memory: it can
// only arise when the library starts goroutines of its own that outlive the scheduled phase,
// and it says nothing about the library.
func libraryRaces(rep string) string {
	var keep []string
	for _, blk := range strings.Split(rep, "==================") {
		if !strings.Contains(blk, "DATA RACE") {
			continue
		}
		lines := strings.Split(blk, "\n")
		// a report cut short (read while it was being written, or beyond the read limit) names no function at
		// all: it cannot be attributed to anybody and is not evidence of anything
		frames := false
		for _, ln := range lines {
			if l := strings.TrimSpace(ln); strings.HasSuffix(l, ")") && strings.Contains(l, ".") && !strings.HasPrefix(l, "/") && !strings.Contains(l, " ") {
				frames = true
			}
		}
		if !frames {
			continue
		}
		harness := false
		for i, ln := range lines {
			l := strings.TrimSpace(ln)
			if !(strings.HasPrefix(l, "Read at") || strings.HasPrefix(l, "Write at") || strings.HasPrefix(l, "Previous read at") || strings.HasPrefix(l, "Previous write at") ||
				strings.HasPrefix(l, "Atomic") || strings.HasPrefix(l, "Previous atomic")) {
				continue
			}
			for j := i + 1; j < len(lines); j++ {
				top := strings.TrimSpace(lines[j])
				if top == "" {
					break
				}
				if strings.HasPrefix(top, "runtime.") || strings.HasPrefix(top, "/") || strings.HasPrefix(top, "sync/atomic.") || strings.HasPrefix(top, "internal/") {
					continue // runtime helper (slicecopy, memmove, ...) or a file:line row: look at its caller
				}
				if strings.HasPrefix(top, "verifsim/") || strings.HasPrefix(top, "github.com/russellhaering/gosaml2/verifsim.") || strings.HasPrefix(top, "main.") {
					harness = true
				}
				break
			}
		}
		if !harness {
			keep = append(keep, blk)
		}
	}
	if len(keep) == 0 {
		return ""
	}
	return "==================" + strings.Join(keep, "==================") + "=================="
}

// raceSummary extracts the conflicting locations (library frames) from a race report.
func raceSummary(rep string) string {
	var locs []string
	for _, ln := range strings.Split(rep, "\n") {
		ln = strings.TrimSpace(ln)
		if strings.HasPrefix(ln, "github.com/russellhaering/gosaml2") || strings.HasPrefix(ln, "github.com/russellhaering/goxmldsig") {
			ln = strings.TrimSuffix(ln, "()")
			ln = strings.TrimPrefix(ln, "github.com/russellhaering/")
			dup := false
			for _, l := range locs {
				if l == ln {
					dup = true
				}
			}
			if !dup && len(locs) < 2 && !strings.Contains(ln, "verifsim") {
				locs = append(locs, ln)
			}
		}
	}
	return strings.Join(locs, "|")
}

// ---- per-task entropy ----------------------------------------------------------------------------

// TaskEntropy is installed as crypto/rand.Reader: it serves each task from its own
// deterministic stream (the scheduler knows who runs), so results do not depend on the
// interleaving, and it accounts for every byte served.
type TaskEntropy struct {
	streams [][]byte
	pos     []int
	reads   [][]int // per task: sizes of individual Read calls
	short   bool    // serve at most 1-3 bytes per Read (short-read fault)
	solo    int     // stream used outside scheduled execution
	old     io.Reader
	// foreign: bytes drawn by goroutines the library started itself while tasks are scheduled
	// (they cannot be attributed to a task); served from the last stream with an atomic cursor
	foreignPos atomic.Int64
	// ambiguous: a task drew entropy while another task of the same family (a goroutine the library
	// started on behalf of the same API call, or its parent) could run: the order of the draws is then
	// a scheduling accident and bit-for-bit comparison with a solo execution is not defined
	ambiguous atomic.Bool
	// stallAt / stallFor: the stallAt-th Read (counted over all streams) takes stallFor of real time
	stallAt  int
	stallFor time.Duration
	nReads   atomic.Int64
}

// Ambiguous: see the field.
func (e *TaskEntropy) Ambiguous() bool { return e.ambiguous.Load() }

func NewTaskEntropy(t *core.Tape, n int, short bool) *TaskEntropy {
	e := &TaskEntropy{short: short, solo: 0}
	for i := 0; i < n+1; i++ { // the last stream is the foreign one
		e.streams = append(e.streams, t.Bytes(8192, "entropy.stream"))
		e.pos = append(e.pos, 0)
		e.reads = append(e.reads, nil)
	}
	return e
}

func (e *TaskEntropy) Install() { e.old = rand.Reader; rand.Reader = e }

// Uninstall restores the previous reader and adds what was served to the process-wide
// record (an implementation may legitimately buffer entropy across calls and runs).
func (e *TaskEntropy) Uninstall() {
	rand.Reader = e.old
	for i := range e.streams {
		recordServed(e.Served(i))
	}
}

// ---- process-wide record of every byte crypto/rand.Reader ever served -------------------------

type recordingReader struct{ inner io.Reader }

var (
	servedMu      sync.Mutex
	servedHistory []byte
	usedHistory   = map[int]bool{}
)

const servedCap = 4 << 20

func recordServed(b []byte) {
	servedMu.Lock()
	if len(servedHistory)+len(b) <= servedCap {
		servedHistory = append(servedHistory, b...)
	}
	servedMu.Unlock()
}

func (rr *recordingReader) Read(p []byte) (int, error) {
	n, err := rr.inner.Read(p)
	recordServed(p[:n])
	return n, err
}

func init() { rand.Reader = &recordingReader{inner: rand.Reader} }

// ForeignUsed reports whether a goroutine that is not a task drew entropy during scheduled execution.
func (e *TaskEntropy) ForeignUsed() bool { return e.foreignPos.Load() > 0 }

func (e *TaskEntropy) Read(p []byte) (int, error) {
	id := verifsim.Current()
	if id < 0 {
		id = e.solo
	} else if _, mine := verifsim.OnTask(); !mine {
		// a goroutine started by the library: unattributable, lock-free, no synchronisation contributed
		verifsim.RaceOff()
		f := len(e.streams) - 1
		start := int(e.foreignPos.Add(int64(len(p)))) - len(p)
		verifsim.RaceOn()
		s := e.streams[f]
		for i := range p {
			p[i] = s[(start+i)%len(s)]
		}
		return len(p), nil
	} else {
		// goroutines the library started on behalf of an API call draw from that call's stream
		if verifsim.NumTasks() > len(e.streams)-1 {
			if verifsim.FamilyConcurrent(id) {
				verifsim.RaceOff()
				e.ambiguous.Store(true)
				verifsim.RaceOn()
			}
			id = verifsim.RootOf(id)
		}
	}
	// (a counter all tasks share: harness memory - atomic, and with synchronisation events switched off so that it orders nothing)
	verifsim.RaceOff()
	nr := e.nReads.Add(1)
	stall := e.stallAt > 0 && int(nr) == e.stallAt
	verifsim.RaceOn()
	if stall {
		time.Sleep(e.stallFor)
	}
	n := len(p)
	if e.short && n > 1 {
		n = 1 + (e.pos[id]+len(e.reads[id]))%3
		if n > len(p) {
			n = len(p)
		}
	}
	s := e.streams[id]
	for i := 0; i < n; i++ {
		p[i] = s[(e.pos[id]+i)%len(s)]
	}
	e.pos[id] += n
	e.reads[id] = append(e.reads[id], n)
	return n, nil
}

// Reset rewinds stream id (for the solo re-execution of a task).
func (e *TaskEntropy) Reset(id int) { e.pos[id] = 0; e.reads[id] = nil }

// Served returns the bytes served so far from stream id.
func (e *TaskEntropy) Served(id int) []byte {
	s := e.streams[id]
	if id == len(e.streams)-1 {
		e.pos[id] = int(e.foreignPos.Load())
	}
	out := make([]byte, e.pos[id])
	for i := range out {
		out[i] = s[i%len(s)]
	}
	return out
}
