package props

import (
	"fmt"
	"regexp"

	"github.com/beevik/etree"
	"strings"
	"time"

	"verifsim/core"
	"verifsim/world"
)

// C02 — only trusted, currently valid IdP certificates vouch; bad signatures are fatal.
//
// A run is a short history (1-3 steps) of one SP whose trust store changes at simulated
// events (roll-over adds a certificate, retirement removes one, the store object is
// replaced, the SP restarts). At each step the IdP or an attacker signs one of the four
// inbound message kinds and the transport delivers it with the SP clock placed inside
// the signing certificate's window or on NotBefore/NotAfter +/- {0,1ns,1s}.

var c02Kinds = []string{"response", "assertions", "both-badR", "logout-request", "logout-response", "both-good"}
var c02Signers = []string{"trusted", "untrusted", "trusted-cert-foreign-key", "tampered", "twin-cert-not-in-store", "trusted-member-2", "lookalike-cert-foreign-key"}
var c02ClockModes = []string{"inside", "nb-1s", "nb-1ns", "nb", "nb+1ns", "na-1ns", "na", "na+1ns", "na+1s"}

func init() {
	register(&Prop{
		ID:    "C02",
		Level: "fault_enumeration",
		Rule: "seeded federation histories (1-3 steps): trust store of 0-3 certificates changing by roll-over / retirement / store replacement / SP restart; signer in {trusted member, untrusted, trusted certificate with foreign key, tampered content, same-key twin certificate not in store}, KeyInfo present/absent, " +
			"message kind in {signed Response, signed assertions in unsigned Response, bad Response signature around good assertion signatures, LogoutRequest, LogoutResponse}; SP clock enumerated on NotBefore/NotAfter +/- {0,1ns,1s}; store I/O error on the k-th call; " +
			"oracle: reference rule for 'honoured' and the never-downgrade invariant; distinct = shape hash (store size, events, kind, signer, KeyInfo, clock mode, outcome) per step",
		Directed:   c02Directed,
		Run:        c02Run,
		MustHit:    []string{"clock=nb", "clock=nb-1ns", "clock=na", "clock=na+1ns", "signer=untrusted", "signer=trusted-cert-foreign-key", "signer=tampered", "signer=twin-cert-not-in-store", "signer=lookalike-cert-foreign-key", "no_keyinfo", "store=0", "store=1", "store>=2", "store_error", "idp_key_rollover", "cert_retired", "store_replaced", "sp_restart", "kind=both-badR", "same_issuer_serial", "assertions_signed_by_different_parties", "bad_signature_of_irregular_shape", "redelivery_after_trust_withdrawn"},
		RandomRuns: map[string]int{"quick": 6000, "thorough": 60000},
		Assumptions: []string{"X.509 validity is inclusive at both ends (NotBefore <= now <= NotAfter), certificate identity is DER equality",
			"the SP certificate chain is never checked by the library, so stub certificates are issued by a stub CA"},
	})
}

// draw order per run: steps, store size, then the plans of all three possible steps
// (event, kind, signer, keyinfo, clock, storeErr, nSel, badSel each), then everything else
func c02Directed(tier string) [][]uint64 {
	var out [][]uint64
	for kind := uint64(0); kind < uint64(len(c02Kinds)); kind++ {
		for signer := uint64(0); signer < uint64(len(c02Signers)); signer++ {
			for ki := uint64(0); ki < 2; ki++ {
				for clock := uint64(0); clock < uint64(len(c02ClockModes)); clock++ {
					if tier == "quick" && (kind+signer*2+ki+clock)%5 != 0 {
						continue
					}
					ev := (kind + signer + clock) % 6
					out = append(out, []uint64{0, 0, ev, kind, signer, ki, clock, 0})
					if kind == 1 && signer != 0 && signer != 5 && clock == 0 {
						// unsigned Response with 2-3 signed assertions of which only the last / only the first is bad
						for nSel := uint64(1); nSel < 3; nSel++ {
							for badSel := uint64(1); badSel < 3; badSel++ {
								out = append(out, []uint64{0, 0, 0, kind, signer, ki, clock, 0, nSel, badSel})
							}
						}
					}
				}
			}
		}
	}
	// store sizes 0..3 and store error
	for size := uint64(0); size < 4; size++ {
		for kind := uint64(0); kind < 5; kind++ {
			for ki := uint64(0); ki < 2; ki++ {
				out = append(out, []uint64{0, size + 1, 0, kind, 0, ki, 0, 0})
				out = append(out, []uint64{0, size + 1, 0, kind, 0, ki, 0, 1 + (kind+ki)%3})
			}
		}
	}
	// two-step histories: deliver, then event, then deliver again
	for ev := uint64(1); ev < 6; ev++ {
		for kind := uint64(0); kind < 5; kind++ {
			out = append(out, []uint64{1, 0, 0, kind, 0, 0, 0, 0, 0, 0, ev, kind, (ev + kind) % 2 * 5, 0, 0, 0})
		}
	}
	return out
}

type c02Member struct {
	cert *world.Cert
	key  int
}

func c02Run(r *core.Run) {
	t := r.Tape
	steps := 1 + t.Int(3, "c02.steps")
	sizeSel := t.Int(5, "c02.storesize") // 0 => 1 member (plainest); k => k-1 members
	type stepPlan struct{ ev, kind, signer, keyinfo, clock, storeErr, nSel, badSel int }
	var plans [3]stepPlan
	for i := range plans {
		plans[i] = stepPlan{t.Int(6, "c02.event"), t.Int(len(c02Kinds), "c02.kind"), t.Int(len(c02Signers), "c02.signer"), t.Int(2, "c02.keyinfo"),
			t.Int(len(c02ClockModes), "c02.clock"), t.Int(12, "c02.storeerr"), t.Int(3, "c02.n"), t.Int(3, "c02.badsel")}
	}
	s := NewStd(r)
	s.DrawLive()
	s.DrawClockKnobs()
	attackerKey := 6
	hour := time.Hour
	mint := func(key int, nb, na time.Time) *world.Cert {
		serial := int64(t.Int(2, "c02.serial")) // small range: issuer+serial collisions on purpose
		return world.MintCert(key, nb.Truncate(time.Second), na.Truncate(time.Second), serial)
	}
	size := 1
	if sizeSel > 0 {
		size = sizeSel - 1
	}
	var members []c02Member
	for i := 0; i < size; i++ {
		k := (s.IdPKey + i) % 4
		members = append(members, c02Member{mint(k, s.Epoch.Add(-hour), s.Epoch.Add(time.Duration(2+i)*hour)), k})
	}
	syncStore := func(st *world.SimCertStore) {
		st.Certs = st.Certs[:0]
		seen := map[string]bool{}
		for _, m := range members {
			st.Certs = append(st.Certs, m.cert)
			k := fmt.Sprintf("%s/%s", m.cert.X509.Issuer.String(), m.cert.X509.SerialNumber)
			if seen[k] {
				r.Probe("same_issuer_serial")
			}
			seen[k] = true
		}
	}
	s.Cfg.Store = &world.SimCertStore{}
	syncStore(s.Cfg.Store)
	if !s.Build() {
		return
	}
	attCert := world.MintCert(attackerKey, s.Epoch.Add(-hour), s.Epoch.Add(100*hour), 0)

	for step := 0; step < steps && !r.Failed(); step++ {
		pl := plans[step]
		ev := pl.ev // 0 none 1 rollover(add) 2 retire 3 replace store object 4 restart 5 rollover+retire
		kind := pl.kind
		signer := pl.signer
		keyInfo := pl.keyinfo == 0
		clock := pl.clock
		storeErr := pl.storeErr // 1..3: fail on that call of this delivery
		if storeErr > 3 {
			storeErr = 0
		}
		simNow := r.Sim.Time()
		// --- store / node events
		switch ev {
		case 1, 5:
			k := (s.IdPKey + len(members) + step + 1) % 4
			members = append(members, c02Member{mint(k, simNow.Add(-time.Minute), simNow.Add(3*hour)), k})
			r.Fault("idp_key_rollover")
			if ev == 5 && len(members) > 1 {
				members = members[1:]
				r.Fault("cert_retired")
			}
			syncStore(s.Cfg.Store)
		case 2:
			if len(members) > 0 {
				members = members[1:]
				r.Fault("cert_retired")
			}
			syncStore(s.Cfg.Store)
		case 3:
			ns := &world.SimCertStore{}
			s.Cfg.Store = ns
			syncStore(ns)
			s.Node.SP.IDPCertificateStore = ns // the application swaps the store object
			r.Fault("store_replaced")
		case 4:
			if !s.Build() {
				return
			}
			r.Fault("sp_restart")
		}
		switch n := len(members); {
		case n == 0:
			r.Probe("store=0")
		case n == 1:
			r.Probe("store=1")
		default:
			r.Probe("store>=2")
		}
		// --- who signs, and with which certificate in KeyInfo
		var signCert *world.Cert
		signKey := 0
		tamper := false
		var base *c02Member
		if len(members) > 0 {
			base = &members[0]
			if c02Signers[signer] == "trusted-member-2" {
				base = &members[len(members)-1]
			}
		}
		sname := c02Signers[signer]
		if base == nil && sname != "untrusted" {
			sname = "untrusted" // nothing to be trusted with an empty store
		}
		switch sname {
		case "trusted", "trusted-member-2":
			signCert, signKey = base.cert, base.key
		case "untrusted":
			signCert, signKey = attCert, attackerKey
		case "trusted-cert-foreign-key":
			signCert, signKey = base.cert, attackerKey
		case "tampered":
			signCert, signKey = base.cert, base.key
			tamper = true
		case "lookalike-cert-foreign-key":
			// a certificate of the attacker's key that copies subject, issuer, serial, validity and key identifier
			signCert, signKey = world.MintLookalike(base.cert, attackerKey), attackerKey
		case "twin-cert-not-in-store":
			signCert, signKey = world.MintCert(base.key, base.cert.X509.NotBefore.Add(-time.Second), base.cert.X509.NotAfter, 7), base.key
		}
		r.Probe("signer=" + sname)
		if !keyInfo {
			r.Probe("no_keyinfo")
		}
		// --- clock placement relative to the certificate whose window decides
		decisive := signCert
		if !keyInfo && len(members) == 1 {
			decisive = members[0].cert
		}
		cm := c02ClockModes[clock]
		if cm != "inside" {
			var target time.Time
			off := map[string]time.Duration{"-1s": -time.Second, "-1ns": -time.Nanosecond, "": 0, "+1ns": time.Nanosecond, "+1s": time.Second}[cm[2:]]
			if strings.HasPrefix(cm, "nb") {
				// NotBefore lies in the past for existing members: roll a fresh certificate over
				// with NotBefore ahead of the clock (only when the signer is a store member)
				if sname == "trusted" || sname == "trusted-member-2" || sname == "tampered" || sname == "trusted-cert-foreign-key" {
					nc := mint(base.key, s.Node.Now().Add(90*time.Second), s.Node.Now().Add(3*hour))
					base.cert = nc
					syncStore(s.Cfg.Store)
					signCert, decisive = nc, nc
					if !keyInfo && len(members) != 1 {
						decisive = nil
					}
				}
				if decisive != nil {
					target = decisive.X509.NotBefore.Add(off)
				}
			} else if decisive != nil {
				target = decisive.X509.NotAfter.Add(off)
			}
			if !target.IsZero() && !target.Before(s.Node.Now()) {
				r.Sim.SetNow(target.Add(-s.Cfg.Skew))
				r.Fault("clock_to_cert_bound")
				r.Probe("clock=" + cm)
			} else {
				cm = "inside"
			}
		}
		if cm == "inside" {
			r.Sim.Advance(time.Duration(1+t.Int(120, "c02.advance")) * time.Second)
		}
		now := s.Node.Now()

		// --- the IdP (or the attacker) issues just before delivery
		kname := c02Kinds[kind]
		r.Probe("kind=" + kname)
		goodCert, goodKey := signCert, signKey // for "both-badR": assertions are signed well
		if base != nil {
			goodCert, goodKey = base.cert, base.key
		}
		mkSig := func(cert *world.Cert, key int) *world.SigOpts {
			o := world.DrawSigOpts(t, key, cert)
			if Key := world.Key(key); Key.EC != nil {
				o.SigAlg = world.ECSigAlgs[0]
			}
			o.KeyInfo = keyInfo
			return o
		}
		var m *world.LResponse
		mainAssertion, mixedGood := 0, false
		switch kname {
		case "logout-request":
			m = world.GenLogout(t, s.IdP, s.Fed, now, "LogoutRequest")
			m.NameID = strp("alice")
			m.Sign = mkSig(signCert, signKey)
		case "logout-response":
			m = world.GenLogout(t, s.IdP, s.Fed, now, "LogoutResponse")
			m.Sign = mkSig(signCert, signKey)
		default:
			m = world.GenResponse(t, s.IdP, s.Fed, now, 1+pl.nSel, false)
			switch kname {
			case "response":
				m.Sign = mkSig(signCert, signKey)
			case "assertions":
				// badSel 0: every assertion is signed by the step's signer; 1: only the last one,
				// 2: only the first one (the others by a trusted member)
				for i, a := range m.Assertions {
					byMain := pl.badSel == 0 || len(m.Assertions) == 1 || (pl.badSel == 1 && i == len(m.Assertions)-1) || (pl.badSel == 2 && i == 0)
					if byMain {
						a.Sign = mkSig(signCert, signKey)
						mainAssertion = i
					} else {
						a.Sign = mkSig(goodCert, goodKey)
						mixedGood = true
					}
					a.Sign.EmptyURI = false
				}
				if mixedGood {
					r.Probe("assertions_signed_by_different_parties")
				}
			case "both-badR", "both-good":
				m.Sign = mkSig(signCert, signKey)
				for _, a := range m.Assertions {
					a.Sign = mkSig(goodCert, goodKey)
					a.Sign.EmptyURI = false
				}
			}
		}
		lay := world.DrawLayout(t)
		xml, err := s.IdP.Issue(m, lay, r.Sim.Now())
		if err != nil {
			r.HarnessError("issue: %v", err)
			return
		}
		if tamper {
			// altered signed content, after signing: the IssueInstant of the signed element
			tid := m.ID
			if kname == "assertions" {
				tid = m.Assertions[mainAssertion].ID
			}
			nx, ok := tamperInstant(xml, tid)
			if !ok {
				r.HarnessError("tamper had no effect")
				return
			}
			xml = nx
			r.Fault("tamper_signed_content")
		}
		if kname == "both-badR" && (sname == "trusted" || sname == "trusted-member-2") {
			// make the Response signature bad while the assertion signatures stay good
			nx, ok := tamperInstant(xml, m.ID)
			if !ok {
				r.HarnessError("tamper had no effect")
				return
			}
			xml = nx
			sname = "tampered"
			tamper = true
			r.Fault("tamper_signed_content")
		}
		if tamper && (kname == "both-badR" || kname == "response" || kname == "logout-request" || kname == "logout-response") && t.Int(3, "c02.nestsig") == 1 {
			// the (now broken) root signature sits one level down, inside Extensions: it still
			// references the root and must still be fatal
			if nx, ok := nestRootSignature(xml); ok {
				xml = nx
				r.Fault("relocate_signature")
				r.Probe("broken_root_signature_nested")
			}
		}
		// --- reference rule
		honoured := func(cert *world.Cert, key int, tampered bool) bool {
			used := cert
			if !keyInfo {
				if len(members) != 1 {
					return false
				}
				used = members[0].cert
			}
			inStore := false
			for _, mm := range members {
				if string(mm.cert.DER) == string(used.DER) {
					inStore = true
				}
			}
			if !inStore {
				return false
			}
			if now.Before(used.X509.NotBefore) || now.After(used.X509.NotAfter) {
				return false
			}
			return used.KeyIdx == key && !tampered
		}
		hMain := honoured(signCert, signKey, tamper)
		if mixedGood {
			hMain = hMain && honoured(goodCert, goodKey, false)
		}
		if shape := t.Int(12, "c02.sigshape"); !hMain && shape >= 1 && shape <= 3 {
			// the non-verifying signature is, on top of that, irregular in shape (second KeyInfo, second or
			// missing SignatureValue): it still refers to the message and must not be taken for "unsigned"
			tid := m.ID
			if kname == "assertions" {
				tid = m.Assertions[mainAssertion].ID
			}
			if nx, ok := irregularSignature(xml, tid, shape); ok {
				xml = nx
				r.Fault("bad_signature_of_irregular_shape")
			}
		}
		expectAccept := hMain
		if kname == "both-badR" || kname == "both-good" {
			// the root signature decides; a good assertion signature never rescues a bad root
			expectAccept = hMain
		}
		if storeErr != 0 {
			s.Cfg.Store.FailAt = s.Cfg.Store.Calls + storeErr
		}
		enc := world.Present(xml, t.Bool("c02.compress"), 6)
		if t.Int(6, "c02.ambient") == 1 {
			s.NeighbourNoise(enc)
		}
		firedBefore := s.Cfg.Store.Fired
		var out world.Outcome
		flag := false
		viaRetrieve := false
		switch kname {
		case "logout-request":
			lr, o := s.Node.LogoutRequest(enc)
			out = o
			if o.OK() {
				flag = lr.SignatureValidated
			}
		case "logout-response":
			lr, o := s.Node.LogoutResponse(enc)
			out = o
			if o.OK() {
				flag = lr.SignatureValidated
			}
		default:
			viaRetrieve = t.Int(3, "c02.retrieve") == 1
			if viaRetrieve {
				ai, o := s.Node.Retrieve(enc)
				out = o
				if o.OK() {
					flag = ai.ResponseSignatureValidated
					if kname == "assertions" {
						flag = len(ai.Assertions) > 0
						for _, a := range ai.Assertions {
							flag = flag && a.SignatureValidated
						}
					}
				}
				break
			}
			resp, o := s.Node.ValidateResponse(enc)
			out = o
			if o.OK() {
				flag = resp.SignatureValidated
				if kname == "assertions" {
					flag = len(resp.Assertions) > 0
					for _, a := range resp.Assertions {
						flag = flag && a.SignatureValidated
					}
				}
			}
		}
		storeFired := s.Cfg.Store.Fired > firedBefore
		s.Cfg.Store.FailAt = 0
		if storeFired {
			r.Fault("store_error")
		}
		r.Steps++
		r.Logf("step %d ev=%d store=%d kind=%s signer=%s keyinfo=%v clock=%s storeErr=%v -> %s %s flag=%v", step, ev, len(members), kname, sname, keyInfo, cm, storeFired, out.Class(), world.ErrClass(out.Err), flag)
		r.Shape(fmt.Sprintf("s%d.ev%d.st%d.%s.%s.ki%v.%s.se%v.%s", step, ev, len(members), kname, sname, keyInfo, cm, storeFired, out.Class()))
		r.Sample = obs("step", step, "event", ev, "store_size", len(members), "kind", kname, "signer", sname, "keyinfo", keyInfo, "clock", cm, "now", now.Format(time.RFC3339Nano),
			"cert_window", fmt.Sprintf("%s..%s", signCert.X509.NotBefore.Format(time.RFC3339), signCert.X509.NotAfter.Format(time.RFC3339)), "store_error", storeFired, "outcome", out.Class())
		if out.Panic != "" {
			return
		}
		ctx := obs("step", step, "event", ev, "store_size", len(members), "kind", kname, "signer", sname, "keyinfo", keyInfo, "clock", cm, "now", now.Format(time.RFC3339Nano),
			"cert_not_before", signCert.X509.NotBefore.Format(time.RFC3339), "cert_not_after", signCert.X509.NotAfter.Format(time.RFC3339), "err", fmt.Sprint(out.Err))
		if storeFired {
			if out.OK() {
				r.Fail("store-error", "C02/store-error-accepted/"+kname, ctx)
			}
			continue
		}
		switch {
		case !expectAccept && out.OK():
			r.Fail("honoured", fmt.Sprintf("C02/unhonoured-accepted/%s/%s/ki=%v/%s", kname, sname, keyInfo, cm), ctx)
		case expectAccept && !out.OK():
			r.Fail("honoured", fmt.Sprintf("C02/honoured-rejected/%s/%s/ki=%v/%s", kname, sname, keyInfo, cm), ctx)
		case expectAccept && !flag:
			r.Fail("honoured", fmt.Sprintf("C02/honoured-but-flag-false/%s", kname), ctx)
		}
		// the very same body reaches the same SP again after what vouched for it is gone: the certificate
		// that decided has expired on the SP clock (the assertion itself is still inside its window), was
		// retired from the store, or the store object was replaced by one without it. Acceptance is decided
		// anew every time.
		if !r.Failed() && out.OK() && expectAccept && decisive != nil && kname != "logout-request" && kname != "logout-response" && t.Int(2, "c02.redeliver") == 1 {
			what := t.Int(3, "c02.redeliver.what")
			if what == 0 {
				if gap := decisive.X509.NotAfter.Sub(now); gap >= 0 && gap < 100*time.Second {
					r.Sim.SetNow(decisive.X509.NotAfter.Add(time.Second).Add(-s.Cfg.Skew))
				} else {
					what = 1
				}
			}
			if what >= 1 {
				var kept []c02Member
				for _, mm := range members {
					if string(mm.cert.DER) != string(decisive.DER) {
						kept = append(kept, mm)
					}
				}
				members = kept
				if what == 1 {
					syncStore(s.Cfg.Store)
				} else {
					ns := &world.SimCertStore{}
					s.Cfg.Store = ns
					syncStore(ns)
					s.Node.SP.IDPCertificateStore = ns
				}
			}
			var o2 world.Outcome
			if viaRetrieve {
				_, o2 = s.Node.Retrieve(enc)
			} else {
				_, o2 = s.Node.ValidateResponse(enc)
			}
			r.Steps++
			r.Fault("redelivery_after_trust_withdrawn")
			r.Logf("redelivery after trust change %d -> %s %s", what, o2.Class(), world.ErrClass(o2.Err))
			if o2.Panic == "" && o2.OK() {
				ctx["change"], ctx["entry_retrieve"] = []string{"certificate expired on the SP clock", "certificate retired from the store", "store object replaced"}[what], viaRetrieve
				r.Fail("honoured", fmt.Sprintf("C02/redelivery-accepted-after-trust-withdrawn/%d", what), ctx)
			}
		}
	}
}

var issueInstantAttr = regexp.MustCompile(`IssueInstant\s*=\s*["']`)

// tamperInstant rewrites the IssueInstant attribute in the start tag of the element
// whose ID is id (content covered by that element's signature).
func tamperInstant(xml, id string) (string, bool) {
	i := strings.Index(xml, `ID="`+id+`"`)
	if i < 0 {
		i = strings.Index(xml, `ID='`+id+`'`)
	}
	if i < 0 {
		return xml, false
	}
	st := strings.LastIndex(xml[:i], "<")
	en := strings.Index(xml[i:], ">")
	if st < 0 || en < 0 {
		return xml, false
	}
	en += i
	tag := xml[st:en]
	loc := issueInstantAttr.FindStringIndex(tag)
	if loc == nil {
		return xml, false
	}
	k := loc[1] - 1 // position of the opening quote
	q := tag[k]
	e := strings.IndexByte(tag[k+1:], q)
	if e < 0 {
		return xml, false
	}
	ntag := tag[:k+1] + "1999-12-31T23:59:59Z" + tag[k+1+e:]
	return xml[:st] + ntag + xml[en:], true
}

// nestRootSignature moves the root's Signature child under a new Extensions element.
func nestRootSignature(xml string) (string, bool) {
	d := etree.NewDocument()
	if err := d.ReadFromString(xml); err != nil {
		return xml, false
	}
	root := d.Root()
	for _, c := range root.ChildElements() {
		if c.Tag == "Signature" {
			root.RemoveChild(c)
			pfx := root.Space
			if pfx != "" {
				pfx += ":"
			}
			ext := etree.NewElement(pfx + "Extensions")
			ext.AddChild(c)
			root.InsertChildAt(1, ext)
			s, err := d.WriteToString()
			return s, err == nil
		}
	}
	return xml, false
}

// irregularSignature gives the ds:Signature child of the element with the given ID a shape oddity:
// 1 a second (empty) KeyInfo, 2 a second SignatureValue, 3 no SignatureValue.
func irregularSignature(xml, id string, mode int) (string, bool) {
	d := etree.NewDocument()
	if err := d.ReadFromString(xml); err != nil {
		return xml, false
	}
	var owner *etree.Element
	if world.PlainAttr(d.Root(), "ID") == id {
		owner = d.Root()
	} else {
		for _, c := range d.Root().ChildElements() {
			if world.PlainAttr(c, "ID") == id {
				owner = c
			}
		}
	}
	if owner == nil {
		return xml, false
	}
	for _, c := range owner.ChildElements() {
		if c.Tag != "Signature" {
			continue
		}
		pfx := c.Space
		if pfx != "" {
			pfx += ":"
		}
		var sv *etree.Element
		for _, g := range c.ChildElements() {
			if g.Tag == "SignatureValue" {
				sv = g
			}
		}
		switch mode {
		case 1:
			c.AddChild(etree.NewElement(pfx + "KeyInfo"))
			if len(c.FindElements("./KeyInfo")) < 2 {
				c.AddChild(etree.NewElement(pfx + "KeyInfo"))
			}
		case 2:
			if sv == nil {
				return xml, false
			}
			c.InsertChildAt(sv.Index()+1, sv.Copy())
		case 3:
			if sv == nil {
				return xml, false
			}
			c.RemoveChild(sv)
		}
		out, err := d.WriteToString()
		return out, err == nil
	}
	return xml, false
}
