package props

import (
	"encoding/base64"
	"encoding/xml"
	"fmt"
	"strings"
	"time"

	"github.com/beevik/etree"
	saml2 "github.com/russellhaering/gosaml2"
	"github.com/russellhaering/gosaml2/types"

	"verifsim/core"
	"verifsim/world"
)

// C19 — published metadata matches configuration, the keys really used, and its validity.
// The IdP stub consumes Metadata() / MetadataWithSLO(h) (as struct and through XML) and
// then *uses* it: the published signing certificate must verify the SP's next signed
// message, an assertion encrypted to the published encryption certificate under every
// listed method must be accepted.

var c19Hours = []int64{0, 1, 5, 24, 168, 1000000, -1, -1000}

func init() {
	register(&Prop{
		ID:    "C19",
		Level: "exploration",
		Rule: "seeded SP->IdP runs: key configuration (encryption key by field / TLS field / setter / both / both-differ; signing key none / field / TLS field / setter / both; RSA or ECDSA signer) x boolean options x URL and issuer strings from the hostile pool x SP clock (instant, skew, location) x variant (Metadata, MetadataWithSLO(h) for h in {0,1,5,24,168,10^6,-1,-1000}); " +
			"the IdP bootstraps from the metadata only: entity ID, endpoints, bindings, flags, validUntil arithmetic, XML round trip, then verifies the SP's next signed message with the published signing certificate and has an assertion encrypted to the published encryption certificate under each listed method accepted; distinct = shape hash (key config, variant, hours, options, outcome)",
		Directed:   c19Directed,
		Run:        c19Run,
		MustHit:    []string{"variant=Metadata", "variant=MetadataWithSLO", "hours>0", "hours<=0", "enc=setter", "sig=setter", "sig=field", "sig=none", "published_signing_cert_used", "published_encryption_cert_used", "xml_roundtrip", "non_utc_location", "near_dst_transition", "signing_key_without_certificate", "encryption_key_without_certificate"},
		RandomRuns: map[string]int{"quick": 3000, "thorough": 20000},
		Assumptions: []string{"an encryption key is always configured (the library documents it as required)",
			"XML round trip is compared as values: encoding/xml fills XMLName bookkeeping fields on the way back"},
	})
}

// draw order: variant, hoursIdx, then DrawOut's (encstyle, sigstyle, ecsigner, alg, canon, hostile)
func c19Directed(tier string) [][]uint64 {
	var out [][]uint64
	for v := uint64(0); v < 2; v++ {
		for h := uint64(0); h < uint64(len(c19Hours)); h++ {
			if v == 0 && h > 0 {
				continue
			}
			for es := uint64(1); es < 6; es++ {
				for ss := uint64(0); ss < 5; ss++ {
					if tier == "quick" && (v+h+es+ss)%3 != 0 {
						continue
					}
					out = append(out, []uint64{v, h, es, ss, (es + ss) % 4, (h + es) % 5, ss % 7, (es + ss + h) % 2})
				}
			}
		}
	}
	return out
}

func c19Run(r *core.Run) {
	t := r.Tape
	variant := []string{"Metadata", "MetadataWithSLO"}[t.Int(2, "c19.variant")]
	hours := c19Hours[t.Int(len(c19Hours), "c19.hours")]
	o := DrawOut(r, 0, false)
	if o.EncStyle == world.KeyNone {
		o.EncStyle = world.KeyField
		o.Cfg.EncStyle = world.KeyField
	}
	o.Cfg.SignRequests = t.Bool("c19.signrequests")
	o.Cfg.SkipSig = t.Bool("c19.skipsig")
	if o.Hostile {
		o.Cfg.SLO = world.DrawNonEmpty(t, "c19.slo")
	}
	o.Cfg.Store = &world.SimCertStore{Certs: []*world.Cert{o.IdPCert}}
	// a signing key that comes without a certificate (a bare key): there is nothing to publish as signing
	// key, everything else the metadata states must still mirror the configuration
	certless := t.Int(8, "c19.certless") == 1 && variant == "Metadata" && (o.SigStyle == world.KeySetter || o.SigStyle == world.KeyField)
	if certless {
		o.Cfg.SigCertRaw = []byte{}
		r.Probe("signing_key_without_certificate")
	}
	// an encryption key handed to the setter without its certificate (rolled over before the certificate was
	// loaded), possibly on top of an older key pair in the deprecated field: the setter key is the one that
	// decrypts, and there is no certificate of it to publish
	encCertless := !certless && t.Int(10, "c19.enccertless") == 1 && (o.EncStyle == world.KeySetter || o.EncStyle == world.KeyBothDiffer || o.EncStyle == world.KeyBothDifferTLS)
	if encCertless {
		o.Cfg.EncCertRaw = []byte{}
		r.Probe("encryption_key_without_certificate")
	}
	if !o.PreHistory(r) || !o.Build() {
		return
	}
	if t.Int(5, "c19.otherapi") == 1 {
		OtherAPICalls(r, o.Node.SP, 2)
	}
	r.Sim.Advance(time.Duration(t.Int(1e9, "c19.subsec")))
	if o.Cfg.Loc != time.UTC {
		r.Probe("non_utc_location")
	}
	// clock jump: place the SP clock less than the validity period before a daylight-saving transition
	if tr := nextTransition(o.Cfg.Loc, o.Node.Now()); !tr.IsZero() && t.Bool("c19.neardst") {
		r.Sim.SetNow(tr.Add(-time.Duration(1+t.Int(7*24*3600-1, "c19.beforedst")) * time.Second).Add(-o.Cfg.Skew))
		r.Fault("clock_jump_near_dst")
		r.Probe("near_dst_transition")
	}
	r.Probe("variant=" + variant)
	r.Probe("enc=" + o.EncStyle.String())
	r.Probe("sig=" + o.SigStyle.String())
	sp := o.Node.SP
	now := o.Node.Now()
	var md *types.EntityDescriptor
	out := world.Guard(func() error {
		var err error
		if variant == "Metadata" {
			md, err = sp.Metadata()
		} else {
			if hours > 0 {
				r.Probe("hours>0")
			} else {
				r.Probe("hours<=0")
			}
			md, err = sp.MetadataWithSLO(hours)
		}
		return err
	})
	r.Steps++
	ctx := obs("variant", variant, "hours", hours, "key_config", o.KeyCfg(), "sign_requests", o.Cfg.SignRequests, "skip_signature_validation", o.Cfg.SkipSig, "sp_now", now.Format(time.RFC3339Nano))
	r.Logf("%s(%d) keycfg=%s now=%s loc=%s -> %s", variant, hours, o.KeyCfg(), now.UTC().Format(time.RFC3339Nano), o.Cfg.Loc, out.Class())
	r.Shape(fmt.Sprintf("%s.%d.%s.sr%v.sk%v.h%v.%s", variant, hours, o.KeyCfg(), o.Cfg.SignRequests, o.Cfg.SkipSig, o.Hostile, out.Class()))
	r.Sample = obs("variant", variant, "hours", hours, "key_config", o.KeyCfg(), "outcome", out.Class())
	if encCertless && out.Panic == "" {
		if !out.OK() {
			return // nothing to publish: refusing is the safe outcome
		}
		for _, kd := range md.SPSSODescriptor.KeyDescriptors {
			if kd.Use == "encryption" && len(kd.KeyInfo.X509Data.X509Certificates) > 0 && kd.KeyInfo.X509Data.X509Certificates[0].Data != "" {
				ctx["published"] = trunc(kd.KeyInfo.X509Data.X509Certificates[0].Data, 60)
				r.Fail("metadata", "C19/published-encryption-certificate-is-not-the-decryption-key/"+o.KeyCfg()+"/key-without-certificate", ctx)
				return
			}
		}
		return
	}
	if out.Panic != "" || !out.OK() || md == nil || md.SPSSODescriptor == nil {
		ctx["err"], ctx["panic"] = fmt.Sprint(out.Err), out.Panic
		r.Fail("produce", "C19/metadata-not-produced/"+o.KeyCfg(), ctx)
		return
	}
	check := func(m *types.EntityDescriptor, via string) bool {
		d := m.SPSSODescriptor
		fail := func(what string, g, w any) bool {
			c := map[string]any{"via": via, "got": g, "want": w}
			for k, v := range ctx {
				c[k] = v
			}
			r.Fail("metadata", "C19/"+what, c)
			return false
		}
		if d == nil {
			return fail("no-sp-descriptor", nil, nil)
		}
		if m.EntityID != o.Cfg.SPIssuer {
			return fail("entity-id", m.EntityID, o.Cfg.SPIssuer)
		}
		if len(d.AssertionConsumerServices) != 1 || d.AssertionConsumerServices[0].Location != o.Cfg.ACS || d.AssertionConsumerServices[0].Binding != saml2.BindingHttpPost {
			return fail("assertion-consumer-service", fmt.Sprintf("%+v", d.AssertionConsumerServices), o.Cfg.ACS)
		}
		if variant == "MetadataWithSLO" {
			if len(d.SingleLogoutServices) != 1 || d.SingleLogoutServices[0].Location != o.Cfg.SLO || d.SingleLogoutServices[0].Binding != saml2.BindingHttpPost {
				return fail("single-logout-service", fmt.Sprintf("%+v", d.SingleLogoutServices), o.Cfg.SLO)
			}
		}
		if d.AuthnRequestsSigned != o.Cfg.SignRequests {
			return fail("authn-requests-signed", d.AuthnRequestsSigned, o.Cfg.SignRequests)
		}
		if d.WantAssertionsSigned != !o.Cfg.SkipSig {
			return fail("want-assertions-signed", d.WantAssertionsSigned, !o.Cfg.SkipSig)
		}
		if d.ProtocolSupportEnumeration != world.NSProtocol {
			return fail("protocol-support-enumeration", d.ProtocolSupportEnumeration, world.NSProtocol)
		}
		want := now.UTC().Add(7 * 24 * time.Hour)
		if variant == "MetadataWithSLO" && hours > 0 {
			want = now.UTC().Add(time.Duration(hours) * time.Hour)
		}
		if !m.ValidUntil.Equal(want) {
			sig := "validUntil/default"
			if variant == "MetadataWithSLO" && hours > 0 {
				sig = "validUntil/h>0"
			} else if variant == "MetadataWithSLO" {
				sig = "validUntil/h<=0"
			}
			return fail(sig, m.ValidUntil.Format(time.RFC3339Nano), want.Format(time.RFC3339Nano))
		}
		var sigCert, encCert string
		var methods []string
		nSig, nEnc := 0, 0
		for _, kd := range d.KeyDescriptors {
			c := ""
			if len(kd.KeyInfo.X509Data.X509Certificates) > 0 {
				c = kd.KeyInfo.X509Data.X509Certificates[0].Data
			}
			switch kd.Use {
			case "signing":
				sigCert = c
				nSig++
			case "encryption":
				encCert = c
				nEnc++
				for _, em := range kd.EncryptionMethods {
					methods = append(methods, em.Algorithm)
				}
			default:
				return fail("key-descriptor-use", kd.Use, "signing|encryption")
			}
		}
		if certless {
			if nSig != 0 && sigCert != "" {
				return fail("signing-descriptor-for-a-key-without-certificate/"+o.KeyCfg(), nSig, 0)
			}
			sigCert = base64.StdEncoding.EncodeToString(o.WantSignCert.DER) // nothing to compare
		} else if nSig != 1 {
			return fail("signing-descriptor-missing/"+o.KeyCfg(), nSig, 1)
		}
		if nEnc != 1 {
			return fail("encryption-descriptor-missing/"+o.KeyCfg(), nEnc, 1)
		}
		if sigCert != base64.StdEncoding.EncodeToString(o.WantSignCert.DER) {
			return fail("published-signing-certificate-is-not-the-signing-key/"+o.KeyCfg(), trunc(sigCert, 60), "configured signing certificate")
		}
		if encCert != base64.StdEncoding.EncodeToString(o.EncCert.DER) {
			return fail("published-encryption-certificate-is-not-the-decryption-key/"+o.KeyCfg(), trunc(encCert, 60), "configured encryption certificate")
		}
		if len(methods) == 0 {
			return fail("no-encryption-methods", 0, ">0")
		}
		return true
	}
	if !check(md, "struct") {
		return
	}
	// through XML: marshal, conforming parse, unmarshal back
	xb, err := xml.Marshal(md)
	if err != nil {
		ctx["err"] = fmt.Sprint(err)
		r.Fail("xml", "C19/metadata-does-not-marshal", ctx)
		return
	}
	r.Probe("xml_roundtrip")
	if _, err := world.ConformingParse(xb); err != nil {
		ctx["err"], ctx["xml"] = fmt.Sprint(err), trunc(string(xb), 800)
		r.Fail("xml", "C19/metadata-xml-not-wellformed", ctx)
		return
	}
	back := &types.EntityDescriptor{}
	if err := xml.Unmarshal(world.NormalizeAttrWhitespace(xb), back); err != nil {
		ctx["err"] = fmt.Sprint(err)
		r.Fail("xml", "C19/metadata-xml-does-not-parse-back", ctx)
		return
	}
	if !check(back, "xml") {
		return
	}
	// what an IdP reads with its own reader (names and namespaces as the metadata schema spells them)
	if why := c19IndependentRead(xb, o, variant, certless); why != "" {
		ctx["xml"] = trunc(string(xb), 1500)
		r.Fail("xml", "C19/xml-as-read-by-the-idp/"+why, ctx)
		return
	}
	// ---- the IdP now uses what was published
	pubSig, pubEnc := "", ""
	var methods []string
	for _, kd := range back.SPSSODescriptor.KeyDescriptors {
		if kd.Use == "signing" {
			pubSig = kd.KeyInfo.X509Data.X509Certificates[0].Data
		} else {
			pubEnc = kd.KeyInfo.X509Data.X509Certificates[0].Data
			for _, em := range kd.EncryptionMethods {
				methods = append(methods, em.Algorithm)
			}
		}
	}
	sigDER, _ := base64.StdEncoding.DecodeString(pubSig)
	encDER, _ := base64.StdEncoding.DecodeString(pubEnc)
	kind := outKinds[t.Int(3, "c19.kind")]
	if kind == "AuthnRequest" && !o.Cfg.SignRequests {
		kind = "LogoutRequest" // AuthnRequests are only signed when the option is on
	}
	m, bo := o.BuildOut(r, kind, true, false)
	if bo.OK() && !certless {
		if d, err := world.ConformingParse([]byte(m.XML)); err == nil {
			r.Probe("published_signing_cert_used")
			if err := world.VerifyEnveloped(d.Root(), sigDER, o.Node.Clock.Dsig()); err != nil {
				ctx["err"], ctx["kind"] = fmt.Sprint(err), kind
				r.Fail("use", "C19/published-signing-certificate-does-not-verify-next-message/"+o.KeyCfg(), ctx)
				return
			}
		}
	}
	encX509, err := parseCert(encDER)
	if err != nil {
		r.Fail("use", "C19/published-encryption-certificate-does-not-parse", ctx)
		return
	}
	pub, ok := rsaPub(encX509)
	if !ok {
		r.Fail("use", "C19/published-encryption-certificate-has-no-rsa-key", ctx)
		return
	}
	o.Cfg.SkipSig = false
	if !o.Build() {
		return
	}
	for _, method := range methods {
		resp := world.GenResponse(t, o.IdP, world.Fed{IdPIssuer: o.Cfg.IdPIssuer, ACS: o.Cfg.ACS, SLO: o.Cfg.SLO, SPIssuer: o.Cfg.SPIssuer, Audience: o.Cfg.Audience}, o.Node.Now(), 1, false)
		resp.Sign = world.PlainSigOpts(o.IdPKey, o.IdPCert)
		resp.Assertions[0].Encrypt = &world.EncOpts{DataAlg: method, KeyAlg: world.KeyAlgs[t.Int(3, "c19.keyalg")], Recipient: pub, EmbedCert: encDER, Rand: t.SubRand("c19.rand")}
		x, err := o.IdP.Issue(resp, world.Layout{}, r.Sim.Now())
		if err != nil {
			ctx["err"], ctx["method"] = fmt.Sprint(err), method
			r.Fail("use", "C19/listed-encryption-method-unknown-to-the-idp", ctx)
			return
		}
		r.Probe("published_encryption_cert_used")
		_, vo := o.Node.ValidateResponse(world.Present(x, false, 0))
		if !vo.OK() {
			ctx["err"], ctx["method"] = fmt.Sprint(vo.Err)+vo.Panic, method
			r.Fail("use", "C19/assertion-encrypted-to-published-certificate-rejected/"+o.KeyCfg(), ctx)
			return
		}
	}
}

// c19IndependentRead reads the serialised metadata the way another SAML stack does - by element and
// attribute names of the metadata schema - and compares the facts an IdP acts on with the configuration.
func c19IndependentRead(xb []byte, o *Out, variant string, certless bool) string {
	const MD, DS = "urn:oasis:names:tc:SAML:2.0:metadata", "http://www.w3.org/2000/09/xmldsig#"
	d := etree.NewDocument()
	if err := d.ReadFromBytes(xb); err != nil || d.Root() == nil {
		return "unreadable"
	}
	root := d.Root()
	if root.Tag != "EntityDescriptor" || root.NamespaceURI() != MD {
		return "root-is-not-md:EntityDescriptor"
	}
	if world.PlainAttr(root, "entityID") != o.Cfg.SPIssuer {
		return "entityID"
	}
	var desc *etree.Element
	for _, c := range root.ChildElements() {
		if c.Tag == "SPSSODescriptor" && c.NamespaceURI() == MD {
			desc = c
		}
	}
	if desc == nil {
		return "no-md:SPSSODescriptor"
	}
	boolAttr := func(k string) string { return strings.TrimSpace(world.PlainAttr(desc, k)) }
	asBool := func(v string) bool { return v == "true" || v == "1" }
	if asBool(boolAttr("AuthnRequestsSigned")) != o.Cfg.SignRequests {
		return "AuthnRequestsSigned"
	}
	if asBool(boolAttr("WantAssertionsSigned")) != !o.Cfg.SkipSig {
		return "WantAssertionsSigned"
	}
	if world.PlainAttr(desc, "protocolSupportEnumeration") != world.NSProtocol {
		return "protocolSupportEnumeration"
	}
	certs := map[string]string{}
	for _, kd := range desc.ChildElements() {
		if kd.Tag != "KeyDescriptor" || kd.NamespaceURI() != MD {
			continue
		}
		use := world.PlainAttr(kd, "use")
		for _, ki := range kd.ChildElements() {
			if ki.Tag != "KeyInfo" || ki.NamespaceURI() != DS {
				continue
			}
			for _, xd := range ki.ChildElements() {
				if xd.Tag != "X509Data" || xd.NamespaceURI() != DS {
					continue
				}
				for _, xc := range xd.ChildElements() {
					if xc.Tag == "X509Certificate" && xc.NamespaceURI() == DS {
						certs[use] = strings.TrimSpace(xc.Text())
					}
				}
			}
		}
		if use == "encryption" {
			n := 0
			for _, em := range kd.ChildElements() {
				if em.Tag == "EncryptionMethod" && em.NamespaceURI() == MD && world.PlainAttr(em, "Algorithm") != "" {
					n++
				}
			}
			if n == 0 {
				return "no-md:EncryptionMethod-with-Algorithm"
			}
		}
	}
	if certs["encryption"] != base64.StdEncoding.EncodeToString(o.EncCert.DER) {
		return "encryption-KeyDescriptor"
	}
	if !certless && certs["signing"] != base64.StdEncoding.EncodeToString(o.WantSignCert.DER) {
		return "signing-KeyDescriptor"
	}
	acs, slo := 0, 0
	for _, c := range desc.ChildElements() {
		if c.NamespaceURI() != MD {
			continue
		}
		switch c.Tag {
		case "AssertionConsumerService":
			if world.PlainAttr(c, "Location") != o.Cfg.ACS || world.PlainAttr(c, "Binding") != saml2.BindingHttpPost || world.PlainAttr(c, "index") == "" {
				return "AssertionConsumerService"
			}
			acs++
		case "SingleLogoutService":
			if world.PlainAttr(c, "Location") != o.Cfg.SLO || world.PlainAttr(c, "Binding") != saml2.BindingHttpPost {
				return "SingleLogoutService"
			}
			slo++
		}
	}
	if acs != 1 {
		return "AssertionConsumerService-count"
	}
	if variant == "MetadataWithSLO" && slo != 1 {
		return "SingleLogoutService-count"
	}
	if _, err := time.Parse(time.RFC3339Nano, world.PlainAttr(root, "validUntil")); err != nil {
		return "validUntil"
	}
	return ""
}
