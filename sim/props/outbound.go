package props

import (
	"fmt"
	"strings"
	"time"

	"github.com/beevik/etree"
	saml2 "github.com/russellhaering/gosaml2"
	"github.com/russellhaering/gosaml2/types"
	dsig "github.com/russellhaering/goxmldsig"

	"verifsim/core"
	"verifsim/world"
)

// Out is the SP->IdP leg of the federation: a drawn SP configuration (keys by field or
// setter, algorithm, canonicaliser, configuration strings from the hostile pool) whose
// outgoing messages are received by the strict IdP stub.
type Out struct {
	*Std
	EncStyle, SigStyle world.KeyStyle
	EncKey, SigKey     int
	EncCert, SigCert   *world.Cert
	// the key that must sign and the certificate that must be reported/published
	WantSignKey  int
	WantSignCert *world.Cert
	AlgName      string
	CanonName    string
	WantSigAlg   string
	WantC14N     string
	Hostile      bool
	// UnsupportedAlg: the configured identifier is unknown to the signing library or belongs to
	// the other key family; the library then signs with its default, which is what it must declare
	UnsupportedAlg bool
}

// mdOf asks the SP for its metadata (guarded).
func mdOf(o *Out) (md *types.EntityDescriptor, out world.Outcome) {
	out = world.Guard(func() error {
		var err error
		md, err = o.Node.SP.Metadata()
		return err
	})
	return
}

var outKeyStyles = []world.KeyStyle{world.KeyNone, world.KeyField, world.KeyTLS, world.KeySetter, world.KeyBoth, world.KeyBothDiffer, world.KeyBothDifferTLS}

// urlPool: IdP endpoints, with and without existing query parameters (never named like
// the SAML parameters).
var urlPool = []string{
	"https://idp.example/sso",
	"https://idp.example/sso?tenant=a%20b&x=1",
	"https://idp.example/sso?x=1&y=a+b&z=%22q%22",
	"https://idp.example:8443/path/to/sso?ü=é",
	"https://idp.example/sso?empty=&flag",
	"https://idp.example/s%C3%A9/sso?k=%3Cv%3E",
	"https://idp.example/sso?zone=eu&app=portal&flag&a=1;b=2",
}

// DrawOut draws the outbound world. encStyle/sigStyle are drawn first (directed prefixes
// force them), then algorithm and canonicaliser, then the strings.
func DrawOut(r *core.Run, hostileMode int, needURL bool) *Out {
	t := r.Tape
	o := &Out{}
	o.EncStyle = outKeyStyles[t.Int(len(outKeyStyles), "out.encstyle")]
	o.SigStyle = outKeyStyles[t.Int(len(outKeyStyles), "out.sigstyle")]
	if o.EncStyle == world.KeyNone && o.SigStyle == world.KeyNone {
		o.EncStyle = world.KeyField
	}
	ecSigner := o.SigStyle == world.KeySetter && t.Int(4, "out.ecsigner") == 1
	algSel := t.Int(7, "out.alg") // 0 default, 1-4 supported, 5 unknown identifier, 6 identifier of the other key family
	canonSel := t.Int(7, "out.canon")
	hostile := t.Int(2, "out.hostile") == 1
	switch hostileMode {
	case 1:
		hostile = false
	case 2:
		hostile = true
	}
	o.Hostile = hostile
	// the certificate of the key that signs may be outside its validity period at the SP clock (expired, or
	// issued for later): the SP does not look at its own certificate's dates when it signs or publishes
	certWindow := t.Int(8, "out.certwindow")
	o.Std = NewStd(r)
	s := o.Std
	s.DrawClockKnobs()
	o.EncKey = 4 + t.Int(2, "out.enckey")
	o.SigKey = 6 + t.Int(2, "out.sigkey")
	if ecSigner {
		o.SigKey = world.FirstEC + t.Int(2, "out.eckey")
	}
	nb, na := s.Epoch.Add(-40*24*time.Hour), s.Epoch.Add(800*24*time.Hour)
	o.EncCert = world.MintCert(o.EncKey, nb, na, 1)
	o.SigCert = world.MintCert(o.SigKey, nb, na, 2)
	if certWindow == 1 || certWindow == 2 {
		wnb, wna := s.Epoch.Add(-800*24*time.Hour), s.Epoch.Add(-400*24*time.Hour)
		if certWindow == 2 {
			wnb, wna = s.Epoch.Add(400*24*time.Hour), s.Epoch.Add(800*24*time.Hour)
		}
		if o.SigStyle != world.KeyNone {
			o.SigCert = world.MintCert(o.SigKey, wnb, wna, 2)
		} else {
			o.EncCert = world.MintCert(o.EncKey, wnb, wna, 1)
		}
		r.Fault("sp_signing_certificate_outside_its_validity_period")
	}
	s.Cfg.EncStyle, s.Cfg.EncKeyIdx, s.Cfg.EncCert = o.EncStyle, o.EncKey, o.EncCert
	s.Cfg.SigStyle, s.Cfg.SigKeyIdx, s.Cfg.SigCert = o.SigStyle, o.SigKey, o.SigCert
	if rs := t.Int(8, "out.rejectedsetter"); rs >= 1 && rs <= 3 {
		s.Cfg.RejectedSetters = rs
		r.Fault("key_rotation_refused_by_the_sp")
	}
	if o.SigStyle != world.KeyNone {
		o.WantSignKey, o.WantSignCert = o.SigKey, o.SigCert
	} else {
		o.WantSignKey, o.WantSignCert = o.EncKey, o.EncCert
	}
	algs := world.RSASigAlgs
	def := dsig.RSASHA256SignatureMethod
	if world.Key(o.WantSignKey).EC != nil {
		algs = world.ECSigAlgs
		def = dsig.ECDSASHA256SignatureMethod
	}
	o.WantSigAlg = def
	switch {
	case algSel >= 1 && algSel <= 4:
		s.Cfg.SigAlg = algs[algSel-1]
		o.WantSigAlg = s.Cfg.SigAlg
	case algSel == 5:
		// not known to the signing library: it keeps its default, and that is what must be declared
		s.Cfg.SigAlg = "http://www.w3.org/2001/04/xmldsig-more#rsa-sha224"
		o.UnsupportedAlg = true
	case algSel == 6:
		if world.Key(o.WantSignKey).EC != nil {
			s.Cfg.SigAlg = dsig.RSASHA512SignatureMethod
		} else {
			s.Cfg.SigAlg = dsig.ECDSASHA512SignatureMethod
		}
		o.UnsupportedAlg = true
	}
	o.AlgName = s.Cfg.SigAlg
	o.WantC14N = string(dsig.CanonicalXML11AlgorithmId)
	if canonSel > 0 {
		alg := world.C14NAlgs[canonSel-1]
		s.Cfg.Canon = world.CanonFor(alg, "")
		s.Cfg.CanonName = alg
		o.WantC14N = alg
	}
	o.CanonName = s.Cfg.CanonName
	s.Cfg.SignRequests = true
	// configuration strings
	str := func(label, plain string) string {
		if !hostile {
			return plain
		}
		return world.DrawNonEmpty(t, label)
	}
	s.Cfg.SPIssuer = str("out.spissuer", s.Fed.SPIssuer)
	if t.Chance(150, "out.nospissuer") {
		s.Cfg.SPIssuer = "" // falls back to the IdP issuer
	}
	s.Cfg.IdPIssuer = str("out.idpissuer", s.Fed.IdPIssuer)
	if s.Cfg.SPIssuer == "" && t.Int(3, "out.noissueratall") == 1 {
		s.Cfg.IdPIssuer = "" // nothing to fall back to: the Issuer element is still there, empty
		r.Probe("no_issuer_configured_at_all")
	}
	s.Cfg.ACS = str("out.acs", s.Fed.ACS)
	if needURL {
		s.Cfg.IdPSSOURL = urlPool[t.Int(len(urlPool), "out.ssourl")]
		s.Cfg.IdPSLOURL = strings.Replace(urlPool[t.Int(len(urlPool), "out.slourl")], "/sso", "/slo", 1)
	} else {
		s.Cfg.IdPSSOURL = str("out.ssourl", "https://idp.example/sso")
		s.Cfg.IdPSLOURL = str("out.slourl", "https://idp.example/slo")
	}
	switch t.Int(4, "out.nameidformat") {
	case 1:
		s.Cfg.NameIDFormat = saml2.NameIdFormatPersistent
	case 2:
		s.Cfg.NameIDFormat = str("out.nameidformat.v", saml2.NameIdFormatEmailAddress)
	case 3:
		s.Cfg.NameIDFormat = saml2.NameIdFormatTransient
	}
	bindings := []string{"", saml2.BindingHttpPost, saml2.BindingHttpRedirect}
	s.Cfg.IdPSSOBinding = bindings[t.Int(3, "out.ssobinding")]
	s.Cfg.IdPSLOBinding = bindings[t.Int(3, "out.slobinding")]
	s.Cfg.ForceAuthn = t.Bool("out.forceauthn")
	s.Cfg.IsPassive = t.Bool("out.ispassive")
	if t.Bool("out.reqctx") {
		rc := &saml2.RequestedAuthnContext{Comparison: []string{saml2.AuthnPolicyMatchExact, saml2.AuthnPolicyMatchMinimum, saml2.AuthnPolicyMatchMaximum, saml2.AuthnPolicyMatchBetter}[t.Int(4, "out.comparison")]}
		if hostile && t.Chance(200, "out.comparison.hostile") {
			rc.Comparison = world.DrawNonEmpty(t, "out.comparison.v")
		}
		nctx := t.Int(4, "out.nctx")
		for i := 0; i < nctx; i++ {
			if hostile && t.Bool("out.ctx.hostile") {
				rc.Contexts = append(rc.Contexts, world.DrawValue(t, "out.ctx"))
			} else {
				rc.Contexts = append(rc.Contexts, saml2.AuthnContextPasswordProtectedTransport)
			}
		}
		s.Cfg.ReqCtx = rc
	}
	return o
}

func (o *Out) KeyCfg() string { return fmt.Sprintf("enc=%s,sig=%s", o.EncStyle, o.SigStyle) }

// OutMsg is one produced message with the arguments it was built from.
type OutMsg struct {
	Kind               string // AuthnRequest | LogoutRequest | LogoutResponse
	XML                string
	Doc                *etree.Document
	Signed             bool
	NameID, SessionIdx string
	Status, ReqID      string
	Via                string
	BuiltAt            time.Time
}

var outKinds = []string{"AuthnRequest", "LogoutRequest", "LogoutResponse"}

// BuildOut asks the SP for a message of the given kind. via selects the builder variant.
func (o *Out) BuildOut(r *core.Run, kind string, signed bool, hostile bool) (*OutMsg, world.Outcome) {
	t := r.Tape
	sp := o.Node.SP
	m := &OutMsg{Kind: kind, Signed: signed, BuiltAt: o.Node.Now()}
	arg := func(label, plain string) string {
		if !hostile {
			return plain
		}
		return world.DrawValue(t, label)
	}
	var doc *etree.Document
	out := world.Guard(func() error {
		var err error
		switch kind {
		case "AuthnRequest":
			if signed {
				if t.Bool("out.via.string") {
					m.Via = "BuildAuthRequest"
					m.XML, err = sp.BuildAuthRequest()
					return err
				}
				m.Via = "BuildAuthRequestDocument"
				doc, err = sp.BuildAuthRequestDocument()
			} else {
				m.Via = "BuildAuthRequestDocumentNoSig"
				doc, err = sp.BuildAuthRequestDocumentNoSig()
			}
		case "LogoutRequest":
			m.NameID, m.SessionIdx = arg("out.nameid", "alice"), arg("out.sessionindex", "s1")
			if signed {
				m.Via = "BuildLogoutRequestDocument"
				doc, err = sp.BuildLogoutRequestDocument(m.NameID, m.SessionIdx)
			} else {
				m.Via = "BuildLogoutRequestDocumentNoSig"
				doc, err = sp.BuildLogoutRequestDocumentNoSig(m.NameID, m.SessionIdx)
			}
		default:
			m.Status = []string{saml2.StatusCodeSuccess, saml2.StatusCodePartialLogout, saml2.StatusCodeUnknownPrincipal}[t.Int(3, "out.status")]
			if hostile && t.Chance(200, "out.status.hostile") {
				m.Status = world.DrawValue(t, "out.status.v")
			}
			m.ReqID = arg("out.reqid", "_req1")
			if signed {
				m.Via = "BuildLogoutResponseDocument"
				doc, err = sp.BuildLogoutResponseDocument(m.Status, m.ReqID)
			} else {
				m.Via = "BuildLogoutResponseDocumentNoSig"
				doc, err = sp.BuildLogoutResponseDocumentNoSig(m.Status, m.ReqID)
			}
		}
		if err != nil {
			return err
		}
		m.Doc = doc
		if t.Int(3, "out.interleave") == 1 {
			// the returned document is kept while other messages are built; only then is it
			// serialised: it must not have changed meanwhile
			if d2, e := sp.BuildAuthRequestDocumentNoSig(); e == nil {
				d2.WriteToString()
			}
			if d3, e := sp.BuildLogoutRequestDocumentNoSig("interleaved", "interleaved"); e == nil {
				d3.WriteToString()
			}
			sp.BuildLogoutResponseDocumentNoSig(world.StatusOK, "_interleaved")
			r.Fault("other_messages_built_before_serialisation")
		}
		m.XML, err = doc.WriteToString()
		return err
	})
	return m, out
}

// PreHistory gives the SP a past before the measured calls: the same instance first serves
// under another configuration (other keys through the other API, other strings, the
// RequestedAuthnContext object with other content, a clock that is hours ahead) using only
// calls that never sign (unsigned builders, getters, metadata: the signing context is lazily
// cached by design and must stay untouched), the returned metadata is scribbled over, and
// then the application re-configures the instance in place to the configuration under test.
func (o *Out) PreHistory(r *core.Run) bool {
	t := r.Tape
	if t.Int(3, "out.prehistory") != 1 {
		return true
	}
	cfgA := *o.Cfg
	cfgA.Reuse = nil
	cfgA.SharedKeyStores = nil // the earlier configuration had its own key-store objects
	swap := func(k world.KeyStyle) world.KeyStyle {
		switch k {
		case world.KeyField, world.KeyTLS:
			return world.KeySetter
		case world.KeySetter, world.KeyBoth, world.KeyBothDiffer, world.KeyBothDifferTLS:
			return world.KeyField
		}
		return k
	}
	cfgA.EncStyle, cfgA.SigStyle = o.Cfg.EncStyle, o.Cfg.SigStyle // same API, other keys ...
	if t.Bool("out.prehistory.swapapi") {
		cfgA.EncStyle, cfgA.SigStyle = swap(o.Cfg.EncStyle), swap(o.Cfg.SigStyle) // ... or the other API
	}
	if t.Int(4, "out.prehistory.nosigkey") == 1 {
		cfgA.SigStyle = world.KeyNone
	}
	if cfgA.EncStyle == world.KeyNone && cfgA.SigStyle == world.KeyNone {
		cfgA.EncStyle = world.KeyField
	}
	cfgA.EncKeyIdx, cfgA.SigKeyIdx = 0, 1
	nb, na := o.Epoch.Add(-40*24*time.Hour), o.Epoch.Add(800*24*time.Hour)
	cfgA.EncCert, cfgA.SigCert = world.MintCert(0, nb, na, 11), world.MintCert(1, nb, na, 12)
	cfgA.SPIssuer, cfgA.IdPIssuer = "https://old-sp.example/meta", "https://old-idp.example/meta"
	cfgA.ACS, cfgA.SLO = "https://old-sp.example/acs", "https://old-sp.example/slo"
	cfgA.IdPSSOURL, cfgA.IdPSLOURL = "https://old-idp.example/sso?old=1", "https://old-idp.example/slo?old=1"
	cfgA.NameIDFormat = "urn:old:format"
	cfgA.ForceAuthn, cfgA.IsPassive = !o.Cfg.ForceAuthn, !o.Cfg.IsPassive
	cfgA.SignRequests = false            // with request signing on, BuildAuthURL would sign and create the (by design sticky) signing context
	cfgA.Skew = o.Cfg.Skew + 3*time.Hour // the clock will move backwards at re-configuration
	// the same RequestedAuthnContext object, edited in place later
	var savedCmp string
	var savedCtx []string
	if rc := o.Cfg.ReqCtx; rc != nil {
		savedCmp, savedCtx = rc.Comparison, rc.Contexts
		rc.Comparison, rc.Contexts = "old-comparison", []string{"urn:old:context:1", "urn:old:context:2"}
	}
	nA, err := world.NewSPNode(&cfgA, r.Sim.Time)
	if err != nil {
		r.HarnessError("prehistory build: %v", err)
		return false
	}
	sp := nA.SP
	world.Guard(func() error {
		sp.GetSigningCertBytes()
		sp.GetEncryptionCertBytes()
		if d, err := sp.BuildAuthRequestDocumentNoSig(); err == nil {
			d.WriteToString()
			sp.BuildAuthURLFromDocument("old relay", d)
		}
		sp.BuildAuthURL("old relay")
		if d, err := sp.BuildLogoutRequestDocumentNoSig("old-name", "old-session"); err == nil {
			sp.BuildLogoutBodyPostFromDocument("old relay", d)
			sp.BuildLogoutBodyPostFromDocument("", d)
		}
		if d, err := sp.BuildLogoutResponseDocumentNoSig(world.StatusOK, "_old"); err == nil {
			sp.BuildLogoutResponseBodyPostFromDocument("", d)
		}
		for _, f := range []func() (*types.EntityDescriptor, error){sp.Metadata, func() (*types.EntityDescriptor, error) { return sp.MetadataWithSLO(3) }} {
			if md, err := f(); err == nil && md != nil && md.SPSSODescriptor != nil {
				// scribble over what was returned
				md.EntityID = "scribble"
				for i := range md.SPSSODescriptor.KeyDescriptors {
					kd := &md.SPSSODescriptor.KeyDescriptors[i]
					for j := range kd.EncryptionMethods {
						kd.EncryptionMethods[j].Algorithm = "urn:scribbled"
					}
					for j := range kd.KeyInfo.X509Data.X509Certificates {
						kd.KeyInfo.X509Data.X509Certificates[j].Data = "scribble"
					}
				}
			}
		}
		return nil
	})
	if rc := o.Cfg.ReqCtx; rc != nil {
		rc.Comparison, rc.Contexts = savedCmp, savedCtx // edited in place, same pointer
	}
	o.Cfg.Reuse = sp
	usesSetter := func(k world.KeyStyle) bool {
		return k == world.KeySetter || k == world.KeyBoth || k == world.KeyBothDiffer || k == world.KeyBothDifferTLS
	}
	o.Cfg.ReuseUsedEncSetter, o.Cfg.ReuseUsedSigSetter = usesSetter(cfgA.EncStyle), usesSetter(cfgA.SigStyle)
	r.Fault("sp_prehistory_then_reconfigured")
	return true
}

// RotateFieldSigningStore: the key store object the application put into the (deprecated) field is one that
// reloads its key pair (a renewed certificate from disk, a KMS, a secrets manager): from now on it hands out
// another key and certificate. The SP asks a field store every time it needs the key, so whatever is signed
// or reported afterwards uses the new pair. Returns false when the signing key does not come from such a store.
func (o *Out) RotateFieldSigningStore(r *core.Run) bool {
	sp := o.Node.SP
	var store any = sp.SPSigningKeyStore
	viaEnc := false
	if o.SigStyle == world.KeyNone {
		store, viaEnc = sp.SPKeyStore, true
	}
	if (o.SigStyle != world.KeyField && !(viaEnc && o.EncStyle == world.KeyField)) || world.Key(o.WantSignKey).RSA == nil {
		return false
	}
	fks, ok := store.(*world.FieldKeyStore)
	if !ok || fks == nil {
		return false
	}
	nk := 4 + (o.WantSignKey+1)%4 // another RSA key (4..7)
	if nk == o.WantSignKey {
		nk = 4 + (nk+1)%4
	}
	nc := world.MintCert(nk, o.WantSignCert.X509.NotBefore, o.WantSignCert.X509.NotAfter, 21)
	fks.Key, fks.Cert = world.Key(nk).RSA, nc.DER
	o.WantSignKey, o.WantSignCert = nk, nc
	if viaEnc {
		o.EncKey, o.EncCert = nk, nc
	} else {
		o.SigKey, o.SigCert = nk, nc
	}
	r.Fault("field_key_store_rotated_its_key_pair")
	return true
}
