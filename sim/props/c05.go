package props

import (
	"errors"
	"fmt"
	"time"

	saml2 "github.com/russellhaering/gosaml2"

	"verifsim/core"
	"verifsim/world"
)

// C05 — expiry and validity-window decisions are exact for every clock position.
//
// A conforming IdP issues a genuine response with 1..3 assertions whose three kinds of
// bounds are drawn independently and rendered in drawn RFC 3339 forms. The transport
// delays delivery so that the SP node's clock (simulated time + skew, any location)
// lands on a chosen bound +/- {1s, 1ns, 0} or anywhere else. Oracle: half-open interval
// model, instants compared as instants.

var c05Offsets = []time.Duration{-time.Second, -time.Nanosecond, 0, time.Nanosecond, time.Second}

const (
	c05KindSC = iota
	c05KindNB
	c05KindCNOOA
)

var c05KindNames = []string{"sc-nooa", "cond-nb", "cond-nooa"}

var c05BadBounds = []string{"", "2030-01-01", "2030-01-01T12:00:00", "2030-13-01T00:00:00Z", "not-a-time", "2030-01-01 12:00:00Z", "12:00:00Z"}

func init() {
	register(&Prop{
		ID:    "C05",
		Level: "fault_enumeration",
		Rule: "seeded federation runs: genuine response (1-3 assertions, independently drawn bounds, drawn RFC3339 forms, drawn signature placement/layout), " +
			"delivery delayed so that the SP clock (sim time + skew, drawn location) sits at bound+offset; directed prefix enumerates bound kind x offset {-1s,-1ns,0,+1ns,+1s} x assertion position x n x rendering x placement, " +
			"plus missing/malformed bounds; distinct = shape hash (layout, placement, n, target, bound kind, offset class, forms, outcome); non-trivial = the SP took a decision",
		Directed:   c05Directed,
		Run:        c05Run,
		MustHit:    []string{"delay_to_bound", "offset=0", "offset=+1ns", "offset=-1ns", "kind=sc-nooa", "kind=cond-nb", "kind=cond-nooa", "bad_bound", "conditions_element_absent", "bounds_centuries_away", "bound_at_the_first_instant_or_centuries_off", "session_not_on_or_after_set", "skewed_clock", "non_utc_location", "redelivery_after_expiry", "foreign_namespace_namesake_with_open_bounds", "reserved_prefix_namesake_attributes_with_open_bounds"},
		RandomRuns: map[string]int{"quick": 8000, "thorough": 60000},
		Assumptions: []string{
			"RFC 3339 grey areas (leap seconds, lower-case t/z, hour 24) are not generated",
			"certificate windows are decades wide so only assertion bounds decide",
		},
	})
}

// draw order (the directed prefix forces the first nine):
//
//	n, target, kind, offIdx(0=random inside,1..5 boundary offsets,6=random anywhere), formOffset, formFrac, placement, bad(0=none), skewSel
func c05Directed(tier string) [][]uint64 {
	var out [][]uint64
	forms := [][2]uint64{{0, 0}, {3, 3}, {1, 9}, {5, 6}}
	for n := uint64(1); n <= 3; n++ {
		for tgt := uint64(0); tgt < n; tgt++ {
			for kind := uint64(0); kind < 3; kind++ {
				if kind != c05KindSC && tgt != 0 {
					continue // only the first assertion's Conditions are inspected
				}
				for off := uint64(1); off <= 5; off++ {
					for fi, f := range forms {
						if tier == "quick" && fi >= 2 && n == 3 {
							continue
						}
						for place := uint64(0); place < 4; place++ {
							if tier == "quick" && place != uint64((int(n)+int(kind)+fi)%4) {
								continue
							}
							skew := uint64((int(n) + int(off) + fi + int(place)) % 3)
							out = append(out, []uint64{n - 1, tgt, kind, off, f[0], f[1], place, 0, skew})
						}
					}
				}
			}
		}
	}
	// missing / malformed bounds, each kind, each position
	for n := uint64(1); n <= 2; n++ {
		for tgt := uint64(0); tgt < n; tgt++ {
			for kind := uint64(0); kind < 3; kind++ {
				if kind != c05KindSC && tgt != 0 {
					continue
				}
				for bad := uint64(1); bad <= uint64(len(c05BadBounds))+2; bad++ {
					out = append(out, []uint64{n - 1, tgt, kind, 0, 0, 0, (n + kind + bad) % 4, bad, bad % 3})
				}
			}
		}
	}
	return out
}

func c05Run(r *core.Run) {
	t := r.Tape
	n := 1 + t.Int(3, "c05.n")
	target := t.Int(n, "c05.target")
	kind := t.Int(3, "c05.kind")
	offIdx := t.Int(7, "c05.off")
	form := world.InstantForm{OffsetMin: []int{0, 60, -300, 330, 345, -720, 840, -1, 1}[t.Int(9, "c05.form.off")], Frac: t.Int(10, "c05.form.frac")}
	place := t.Int(4, "c05.place")
	bad := t.Int(100, "c05.bad") // 0 none; 1..len malformed; len+1 missing; len+2 the whole Conditions element missing; the rest none
	if bad > len(c05BadBounds)+2 {
		bad = 0
	}
	skewSel := t.Int(3, "c05.skewsel")

	s := NewStd(r)
	s.DrawLive()
	switch skewSel {
	case 1:
		s.Cfg.Loc = locPool[1+t.Int(len(locPool)-1, "c05.loc")]
		r.Probe("non_utc_location")
	case 2:
		s.Cfg.Loc = locPool[t.Int(len(locPool), "c05.loc")]
		s.Cfg.Skew = time.Duration(t.Range(-7200, 7200, "c05.skew"))*time.Second + time.Duration(t.Int(1000, "c05.skew.ns"))
		if s.Cfg.Skew != 0 {
			r.Probe("skewed_clock")
		}
		if s.Cfg.Loc != time.UTC {
			r.Probe("non_utc_location")
		}
	}
	s.Cfg.SkipSig = place == PlaceNone
	if t.Chance(200, "c05.noissuercfg") {
		s.Cfg.IdPIssuer = ""
	}
	s.Cfg.AllowMissing = t.Bool("c05.allowmissing")
	spKey := 4
	spCert := world.MintCert(spKey, time.Date(1990, 1, 1, 0, 0, 0, 0, time.UTC), time.Date(2200, 1, 1, 0, 0, 0, 0, time.UTC), 1)
	s.Cfg.EncStyle, s.Cfg.EncKeyIdx, s.Cfg.EncCert = world.KeyField, spKey, spCert
	if !s.Build() {
		return
	}

	// The IdP issues at simulated time 0 (epoch). Bounds are drawn around a base instant.
	issueAt := s.Epoch
	m := world.GenResponse(t, s.IdP, s.Fed, issueAt, n, false)
	type bounds struct{ nb, cnooa, sc time.Time }
	bs := make([]bounds, n)
	fs := make([]world.InstantForm, n)
	for i := range m.Assertions {
		f := form
		if i != target {
			f = world.DrawInstantForm(t)
		}
		fs[i] = f
		nb := world.TruncTo(issueAt.Add(-time.Duration(t.Int(600, "c05.nb"))*time.Second).Add(time.Duration(t.Int(1e9, "c05.nb.ns"))), f)
		cn := world.TruncTo(issueAt.Add(time.Duration(60+t.Int(3000, "c05.cnooa"))*time.Second).Add(time.Duration(t.Int(1e9, "c05.cnooa.ns"))), f)
		sc := world.TruncTo(issueAt.Add(time.Duration(60+t.Int(3000, "c05.sc"))*time.Second).Add(time.Duration(t.Int(1e9, "c05.sc.ns"))), f)
		bs[i] = bounds{nb, cn, sc}
	}
	// keep the other bounds out of the way of the one under test (boundary placements only)
	if offIdx >= 1 && offIdx <= 5 {
		for i := range bs {
			if kind != c05KindSC {
				bs[i].sc = world.TruncTo(issueAt.Add(time.Duration(3200+i)*time.Second), fs[i])
			} else if i != target && !bs[i].sc.After(bs[target].sc.Add(time.Second)) {
				bs[i].sc = world.TruncTo(bs[target].sc.Add(time.Duration(3+i)*time.Second), fs[i])
			}
		}
	}
	// bounds centuries away from the clock (IdPs that write "since ever" / "for ever"): further than a
	// time.Duration can express, so only instant comparison gives the right answer
	if ext := t.Int(8, "c05.extreme"); ext >= 1 && ext <= 3 {
		past := []time.Time{time.Date(1, 1, 2, 0, 0, 0, 0, time.UTC), time.Date(1700, 1, 1, 0, 0, 0, 0, time.UTC), time.Date(1900, 3, 1, 12, 0, 0, 0, time.UTC)}[t.Int(3, "c05.extreme.past")]
		future := []time.Time{time.Date(9998, 6, 1, 0, 0, 0, 0, time.UTC), time.Date(2500, 1, 1, 0, 0, 0, 0, time.UTC)}[t.Int(2, "c05.extreme.future")]
		boundary := offIdx >= 1 && offIdx <= 5
		for i := range bs {
			if ext&1 != 0 && !(boundary && kind == c05KindNB && i == target) {
				bs[i].nb = past
			}
			if ext&2 != 0 {
				if !(boundary && kind == c05KindCNOOA && i == target) {
					bs[i].cnooa = future
				}
				if !(boundary && kind == c05KindSC) {
					bs[i].sc = future
				}
			}
		}
		r.Probe("bounds_centuries_away")
	} else if ext >= 4 && ext <= 5 && !(offIdx >= 1 && offIdx <= 5) {
		// the other way round: expired (or not yet valid) by centuries, including the very first instant
		// time.Time can hold, which is a real instant and not "no bound"
		zero := []time.Time{{}, time.Date(1, 1, 1, 0, 0, 0, 1, time.UTC), time.Date(1601, 1, 1, 0, 0, 0, 0, time.UTC)}[t.Int(3, "c05.extreme.zero")]
		i := t.Int(len(bs), "c05.extreme.which")
		if ext == 4 {
			switch t.Int(2, "c05.extreme.side") {
			case 0:
				bs[i].sc = zero
			default:
				bs[0].cnooa = zero
			}
		} else {
			bs[0].nb = time.Date(9000, 1, 1, 0, 0, 0, 0, time.UTC)
		}
		r.Probe("bound_at_the_first_instant_or_centuries_off")
	}
	// the IdP session may end earlier than the assertion's validity (AuthnStatement SessionNotOnOrAfter):
	// that is session information, not part of the validity window
	if sn := t.Int(5, "c05.session"); sn >= 1 && m.Assertions[0].Authn != nil {
		v := []time.Time{issueAt.Add(8 * time.Hour), issueAt.Add(-time.Hour), issueAt, issueAt.Add(30 * time.Second)}[sn-1]
		m.Assertions[0].Authn.SessionNotOnOrAfter = strp(world.RenderInstant(v, world.InstantForm{}))
		r.Probe("session_not_on_or_after_set")
	}
	for i, a := range m.Assertions {
		a.NotBefore = strp(world.RenderInstant(bs[i].nb, fs[i]))
		a.NotOnOrAfter = strp(world.RenderInstant(bs[i].cnooa, fs[i]))
		a.SCNotOnOrAfter = strp(world.RenderInstant(bs[i].sc, fs[i]))
	}
	// non-conforming IdP: one missing / malformed bound
	badDesc := ""
	if bad != 0 {
		a := m.Assertions[target]
		var v *string
		if bad <= len(c05BadBounds) {
			v = strp(c05BadBounds[bad-1])
			badDesc = "malformed:" + c05BadBounds[bad-1]
		} else {
			badDesc = "missing"
		}
		if bad == len(c05BadBounds)+2 && kind != c05KindSC {
			a.HasConditions = false
			badDesc = "missing"
			r.Probe("conditions_element_absent")
		}
		switch kind {
		case c05KindSC:
			a.SCNotOnOrAfter = v
		case c05KindNB:
			a.NotBefore = v
		case c05KindCNOOA:
			a.NotOnOrAfter = v
		}
		r.Fault("nonconforming_idp_bound")
		r.Probe("bad_bound")
	}
	// non-conforming IdP: foreign-namespace namesakes of the elements that carry the bounds, with bounds that
	// are wide open, written right after the genuine ones. They are not the SAML elements: the message may be
	// refused as malformed, but if it is accepted the genuine bounds decide.
	twin := 0
	reservedNamesakes := false
	if tw := t.Int(16, "c05.twin"); bad == 0 && (tw == 4 || tw == 5) {
		// attributes of the reserved xml: prefix / of XML Schema instance that are spelled like the bounds, on
		// the genuine elements (SubjectConfirmationData admits attributes of other namespaces): they are not
		// the SAML attributes. 4: on the subject confirmation only - a conforming message, judged strictly;
		// 5: on Conditions too (not schema-valid there: may be refused).
		for i, a := range m.Assertions {
			if i == target || tw == 5 {
				// (an attribute with the reserved xml: prefix makes the library's round-trip screen refuse the
				// message, so that spelling only appears in the variant that may be refused)
				a.ExtraAttrs = map[string][][2]string{"SubjectConfirmationData": {{[]string{"xsi:NotOnOrAfter", "xml:NotOnOrAfter"}[(tw-4)*((i+1)%2)], "2999-01-01T00:00:00Z"}}}
				if tw == 5 {
					a.ExtraAttrs["Conditions"] = [][2]string{{"xsi:NotBefore", "1900-01-01T00:00:00Z"}, {"xsi:NotOnOrAfter", "2999-01-01T00:00:00Z"}}
				}
			}
		}
		if tw == 5 {
			twin = 5
		}
		reservedNamesakes = true
		r.Fault("reserved_prefix_namesake_attributes_with_open_bounds")
	} else if bad == 0 && tw >= 1 && tw <= 3 {
		twin = tw
		open := [][2]string{{"NotBefore", "1900-01-01T00:00:00Z"}, {"NotOnOrAfter", "2999-01-01T00:00:00Z"}}
		for i, a := range m.Assertions {
			if (twin == 1 || twin == 3) && (i == target || twin == 3) {
				a.Twins = append(a.Twins, world.LTwin{Of: "SubjectConfirmationData", Attrs: [][2]string{{"NotOnOrAfter", "2999-01-01T00:00:00Z"}, {"Recipient", s.Fed.ACS}}})
			}
			if twin >= 2 && (i == 0 || twin == 3) {
				a.Twins = append(a.Twins, world.LTwin{Of: "Conditions", Attrs: open})
			}
		}
		r.Fault("foreign_namespace_namesake_with_open_bounds")
	}
	s.ApplyPlacement(m, place, t.Chance(700, "c05.plainsig"))
	// some assertions travel encrypted (the first only, all but the first, all): position and bounds of every
	// assertion are what the IdP wrote, whichever way it travelled
	if em := t.Int(8, "c05.enc"); em >= 1 && em <= 3 && place != PlaceNone {
		for i, a := range m.Assertions {
			if (em == 1 && i == 0) || (em == 2 && i > 0) || em == 3 {
				a.Encrypt = world.DrawEncOpts(t, &world.Key(spKey).RSA.PublicKey, spCert.DER)
				if a.Sign != nil {
					a.Sign.ExclusiveOnly()
				}
			}
		}
		r.Fault("some_assertions_encrypted")
	}
	lay := world.DrawLayout(t)
	if reservedNamesakes {
		// (attributes of two foreign namespaces on one element are something the library's round-trip screen
		// refuses: the vendor extras stay out of these messages)
		lay.Extras = false
	}
	xml, err := s.IdP.Issue(m, lay, r.Sim.Now())
	if err != nil {
		r.HarnessError("issue: %v", err)
		return
	}
	r.Logf("idp issue n=%d place=%s layout=%s kind=%s target=%d bad=%q", n, placeNames[place], lay.Sig(), c05KindNames[kind], target, badDesc)

	// transport: delay the delivery so that the SP clock sits at bound+offset
	var bound time.Time
	switch kind {
	case c05KindSC:
		bound = bs[target].sc
	case c05KindNB:
		bound = bs[target].nb
	case c05KindCNOOA:
		bound = bs[target].cnooa
	}
	var spNow time.Time
	offDesc := "random-inside"
	switch {
	case offIdx == 0:
		spNow = issueAt.Add(time.Duration(t.Int(50, "c05.inside")) * time.Second)
	case offIdx <= 5:
		spNow = bound.Add(c05Offsets[offIdx-1])
		offDesc = fmt.Sprintf("%s%+d", c05KindNames[kind], int64(c05Offsets[offIdx-1]))
		r.Fault("delay_to_bound")
		r.Probe("offset=" + map[time.Duration]string{-time.Second: "-1s", -time.Nanosecond: "-1ns", 0: "0", time.Nanosecond: "+1ns", time.Second: "+1s"}[c05Offsets[offIdx-1]])
		r.Probe("kind=" + c05KindNames[kind])
	default:
		spNow = issueAt.Add(time.Duration(t.Range(-900, 4000, "c05.anywhere"))*time.Second + time.Duration(t.Int(1e9, "c05.anywhere.ns")))
		offDesc = "random-anywhere"
		r.Fault("delay")
	}
	r.Sim.SetNow(spNow.Add(-s.Cfg.Skew))
	now := s.Node.Now()
	if !now.Equal(spNow) {
		r.HarnessError("clock placement failed: %v vs %v", now, spNow)
		return
	}
	compress := t.Bool("c05.compress")
	enc := world.Present(xml, compress, 6)
	r.Logf("deliver sp=%s now=%s (%s) skew=%s loc=%s compress=%v", s.Cfg.Name, now.UTC().Format(time.RFC3339Nano), offDesc, s.Cfg.Skew, s.Cfg.Loc, compress)

	if t.Int(6, "c05.ambient") == 1 {
		s.NeighbourNoise(enc)
	}
	ai, out := s.Node.Retrieve(enc)
	r.Steps++
	r.Logf("sp retrieve -> %s %s", out.Class(), world.ErrClass(out.Err))
	r.Shape(fmt.Sprintf("n%d.t%d.%s.%s.%s.f%d.%d.bad%d.sk%d.%s.%s", n, target, c05KindNames[kind], offDesc, placeNames[place], form.OffsetMin, form.Frac, bad, skewSel, lay.Sig(), out.Class()))
	r.Sample = obs("n", n, "target", target, "bound", c05KindNames[kind], "placement", offDesc, "now", now.Format(time.RFC3339Nano),
		"sc", deref(m.Assertions[target].SCNotOnOrAfter), "nb", deref(m.Assertions[0].NotBefore), "cnooa", deref(m.Assertions[0].NotOnOrAfter),
		"place", placeNames[place], "bad", badDesc, "outcome", out.Class(), "err", world.ErrClass(out.Err))
	if out.Panic != "" {
		return // totality is C09's matter
	}

	// ---- oracle ----
	if bad != 0 {
		affectsRetrieve := kind == c05KindSC || target == 0
		if affectsRetrieve && out.OK() {
			r.Fail("bad-bound", fmt.Sprintf("C05/bad-bound/accepted/%s/%s", c05KindNames[kind], map[bool]string{true: "missing", false: "malformed"}[badDesc == "missing"]),
				obs("bound", c05KindNames[kind], "value", badDesc, "target", target, "now", now.Format(time.RFC3339Nano)))
		}
		return
	}
	if twin != 0 && !out.OK() {
		return // refused, for whatever reason: fine
	}
	expired := false
	expIdx := -1
	for i := range bs {
		if !now.Before(bs[i].sc) {
			expired = true
			expIdx = i
			break
		}
	}
	isExpiredErr := func(err error) bool {
		var ev saml2.ErrVerification
		if errors.As(err, &ev) && ev.Cause != nil {
			err = ev.Cause
		}
		var iv saml2.ErrInvalidValue
		return errors.As(err, &iv) && iv.Reason == saml2.ReasonExpired
	}
	if expired {
		if out.OK() {
			d := now.Sub(bs[expIdx].sc)
			r.Fail("sc-expiry", "C05/sc-expiry/accepted/now-minus-bound"+offClass(d),
				obs("now", now.Format(time.RFC3339Nano), "sc_not_on_or_after", deref(m.Assertions[expIdx].SCNotOnOrAfter), "assertion", expIdx, "now_minus_bound_ns", int64(d)))
		} else if !isExpiredErr(out.Err) {
			r.Fail("sc-expiry", "C05/sc-expiry/wrong-error", obs("err", fmt.Sprint(out.Err), "class", world.ErrClass(out.Err)))
		}
		return
	}
	if !out.OK() {
		sig := "C05/unexpired/rejected"
		if isExpiredErr(out.Err) {
			sig = "C05/sc-expiry/rejected-before-bound"
		}
		r.Fail("sc-expiry", sig, obs("now", now.Format(time.RFC3339Nano), "err", fmt.Sprint(out.Err), "sc", deref(m.Assertions[target].SCNotOnOrAfter)))
		return
	}
	// redelivery: the very same payload reaches the same SP again once the clock has passed the
	// earliest subject-confirmation bound; it must now be rejected as expired
	if t.Int(4, "c05.redeliver") == 1 {
		first := bs[0].sc
		for i := range bs {
			if bs[i].sc.Before(first) {
				first = bs[i].sc
			}
		}
		if first.Sub(now) > 24*time.Hour {
			return // "for ever": the simulated clock (and the certificates) do not reach that far
		}
		r.Sim.SetNow(first.Add(time.Duration(t.Int(3, "c05.redeliver.off")) * time.Second).Add(-s.Cfg.Skew))
		r.Fault("redelivery_after_expiry")
		_, out2 := s.Node.Retrieve(enc)
		r.Steps++
		r.Logf("sp retrieve (redelivery at %s) -> %s %s", s.Node.Now().UTC().Format(time.RFC3339Nano), out2.Class(), world.ErrClass(out2.Err))
		if out2.Panic == "" && (out2.OK() || !isExpiredErr(out2.Err)) {
			r.Fail("sc-expiry", "C05/redelivery-after-expiry-not-rejected-as-expired", obs("first_now", now.Format(time.RFC3339Nano), "second_now", s.Node.Now().Format(time.RFC3339Nano), "earliest_sc_not_on_or_after", first.Format(time.RFC3339Nano), "err", fmt.Sprint(out2.Err)))
			return
		}
	}
	wantInvalid := now.Before(bs[0].nb) || !now.Before(bs[0].cnooa)
	got := ai.WarningInfo != nil && ai.WarningInfo.InvalidTime
	if ai.WarningInfo == nil {
		r.Fail("invalid-time", "C05/invalid-time/no-warning-info", nil)
		return
	}
	if want := wantInvalid; want != got {
		which, d := "cond-nb", now.Sub(bs[0].nb)
		if !now.Before(bs[0].nb) {
			which, d = "cond-nooa", now.Sub(bs[0].cnooa)
		}
		dir := "missing-warning"
		if got {
			dir = "spurious-warning"
		}
		r.Fail("invalid-time", fmt.Sprintf("C05/invalid-time/%s/%s/now-minus-bound%s", dir, which, offClass(d)),
			obs("now", now.Format(time.RFC3339Nano), "not_before", deref(m.Assertions[0].NotBefore), "not_on_or_after", deref(m.Assertions[0].NotOnOrAfter), "now_minus_bound_ns", int64(d), "got", got, "want", want))
	}
}

func strp(s string) *string { return &s }

func deref(p *string) string {
	if p == nil {
		return "<absent>"
	}
	return *p
}
