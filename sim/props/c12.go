package props

import (
	"bytes"
	"compress/flate"
	"fmt"
	"runtime"
	"strings"
	"time"

	saml2 "github.com/russellhaering/gosaml2"

	"verifsim/core"
	"verifsim/world"
)

// C12 — decompression is bounded by the configured limit and otherwise transparent.

var c12Limits = []int64{0, 1, 64, 4096, 1 << 20}
var c12EPs = []string{"ValidateEncodedResponse", "RetrieveAssertionInfo", "DecodeUnverifiedBaseResponse", "DecodeUnverifiedLogoutResponse", "ValidateEncodedLogoutRequestPOST", "ValidateEncodedLogoutResponsePOST"}
var c12Families = []string{"boundary", "bomb", "metamorphic", "bomb-in-encrypted"}

const c12Default = 5 * 1024 * 1024

func init() {
	register(&Prop{
		ID:    "C12",
		Level: "fault_enumeration",
		Rule: "hostile DEFLATE streams: expansion sizes limit-1 / limit / limit+1 (padding inside the root and after the root end tag, so silent truncation still leaves a well-formed document) for limits {unset=5MiB, 1, 64, 4096, 1MiB} on every inbound entry point (unverified decoders always 5MiB); bombs of ratio 10^2..10^3+ up to 64 MiB (quick) / 1 GiB (thorough) nominal expansion, also as the plaintext of an attacker-encrypted assertion, " +
			"with bytes allocated during the rejected call measured from runtime.MemStats against a control (the same number of incompressible bytes through the same wrapping): bound = control + 8 x limit + 4 MiB; metamorphic: genuine, non-conforming and corrupted messages presented raw and DEFLATE-compressed at a drawn level must give the same acceptance, data and error class; distinct = shape hash (family, limit, delta, entry point, padding family, level, outcome)",
		Directed:   c12Directed,
		Run:        c12Run,
		MustHit:    []string{"family=boundary", "family=bomb", "family=metamorphic", "family=bomb-in-encrypted", "delta=-1", "delta=0", "delta=+1", "limit=unset", "limit=1", "limit=4096", "pad=after-root", "pad=inside-root", "alloc_measured", "router_peeked_first", "encoder=stored-blocks", "encoder=stored-blocks-text-clean", "encrypted_plaintext_compressed", "encoder=leading-empty-dynamic-block"},
		RandomRuns: map[string]int{"quick": 400, "thorough": 6000},
		Assumptions: []string{"allocation bound is checked for rejected over-limit inputs only (an accepted document is legitimately parsed into a tree several times its size); stack and allocator slack are not measured",
			"each worker process runs one goroutine, so TotalAlloc deltas belong to the call"},
	})
}

// draw order: family, limitIdx, delta(0:-1,1:0,2:+1), ep, pad, ratioSel
func c12Directed(tier string) [][]uint64 {
	var out [][]uint64
	for li := uint64(0); li < uint64(len(c12Limits)); li++ {
		for d := uint64(0); d < 3; d++ {
			for ep := uint64(0); ep < 6; ep++ {
				for pad := uint64(0); pad < 2; pad++ {
					if tier == "quick" && (c12Limits[li] == 0 || c12Limits[li] == 1<<20) && (d+ep+pad)%2 != 0 {
						continue
					}
					out = append(out, []uint64{0, li, d, ep, pad, 0})
					if pad == 1 && d == 2 {
						out = append(out, []uint64{0, li, d, ep, pad, 1}) // the router peeked first
					}
				}
			}
		}
	}
	for li := uint64(0); li < uint64(len(c12Limits)); li++ {
		for ep := uint64(0); ep < 6; ep++ {
			for ratio := uint64(0); ratio < 3; ratio++ {
				if tier == "quick" && (li+ep+ratio)%3 != 0 {
					continue
				}
				out = append(out, []uint64{1, li, 0, ep, 0, ratio})
			}
		}
		out = append(out, []uint64{3, li, 0, 0, 0, li % 3})
	}
	for i := uint64(0); i < 40; i++ {
		out = append(out, []uint64{2, i % 5, 0, i % 6, 0, i})
	}
	for i := uint64(0); i < 4; i++ {
		out = append(out, []uint64{2, 0, 0, 0, 0, 6 + 7*i}) // compressed plaintext inside an EncryptedAssertion
	}
	// hand-made stored-block streams (limit unset, genuine / non-conforming message, every entry point)
	for ep := uint64(0); ep < 6; ep++ {
		for enc := uint64(7); enc < 10; enc++ {
			for kind := uint64(0); kind < 2; kind++ {
				out = append(out, []uint64{2, 0, 0, ep, 0, kind, enc})
			}
		}
	}
	// a flushing compressor's leading empty blocks, every first octet (0x14 ... 0x4c), genuine and non-conforming
	for hl := uint64(0); hl < 8; hl++ {
		out = append(out, []uint64{2, 0, 0, hl % 6, 0, 7 * hl, 10}, []uint64{2, 0, 0, (hl + 3) % 6, 0, 7*hl + 1, 10})
	}
	return out
}

func allocDuring(f func()) uint64 {
	var a, b runtime.MemStats
	runtime.GC()
	runtime.ReadMemStats(&a)
	f()
	runtime.ReadMemStats(&b)
	return b.TotalAlloc - a.TotalAlloc
}

// deflateRepeat streams n bytes of a repeated filler through DEFLATE without holding
// the expansion in memory; head and tail are written literally around it.
func deflateRepeat(head string, fill byte, n int64, tail string, level int) []byte {
	var buf bytes.Buffer
	w, _ := flate.NewWriter(&buf, level)
	w.Write([]byte(head))
	chunk := bytes.Repeat([]byte{fill}, 1<<16)
	for n > 0 {
		k := int64(len(chunk))
		if n < k {
			k = n
		}
		w.Write(chunk[:k])
		n -= k
	}
	w.Write([]byte(tail))
	w.Close()
	return buf.Bytes()
}

func c12Call(n *world.SPNode, ep string, enc string) (world.Outcome, string) {
	data := ""
	o := world.Guard(func() error {
		switch ep {
		case "ValidateEncodedResponse":
			r, e := n.SP.ValidateEncodedResponse(enc)
			if e == nil {
				data = world.J(world.NormResponse(r)) + fmt.Sprint(r.SignatureValidated)
			}
			return e
		case "RetrieveAssertionInfo":
			r, e := n.SP.RetrieveAssertionInfo(enc)
			if e == nil {
				data = r.NameID + "|" + r.SessionIndex + "|" + fmt.Sprint(len(r.Values), r.ResponseSignatureValidated, world.J(r.WarningInfo))
			}
			return e
		case "DecodeUnverifiedBaseResponse":
			r, e := saml2.DecodeUnverifiedBaseResponse(enc)
			if e == nil {
				data = r.ID + "|" + r.InResponseTo + "|" + r.Destination + "|" + r.Version
				if r.Issuer != nil {
					data += "|" + r.Issuer.Value
				}
			}
			return e
		case "DecodeUnverifiedLogoutResponse":
			r, e := saml2.DecodeUnverifiedLogoutResponse(enc)
			if e == nil {
				data = world.J(world.NormLogoutResponse(r))
			}
			return e
		case "ValidateEncodedLogoutRequestPOST":
			r, e := n.SP.ValidateEncodedLogoutRequestPOST(enc)
			if e == nil {
				data = world.J(world.NormLogoutRequest(r)) + fmt.Sprint(r.SignatureValidated)
			}
			return e
		default:
			r, e := n.SP.ValidateEncodedLogoutResponsePOST(enc)
			if e == nil {
				data = world.J(world.NormLogoutResponse(r)) + fmt.Sprint(r.SignatureValidated)
			}
			return e
		}
	})
	return o, data
}

func c12Run(r *core.Run) {
	t := r.Tape
	family := c12Families[t.Int(len(c12Families), "c12.family")]
	limit := c12Limits[t.Int(len(c12Limits), "c12.limit")]
	delta := int64(t.Int(3, "c12.delta")) - 1
	ep := c12EPs[t.Int(6, "c12.ep")]
	padAfter := t.Int(2, "c12.pad") == 1
	sel := t.Int(64, "c12.sel")
	encSel := t.Int(11, "c12.level") // metamorphic family: which DEFLATE encoder presents the message

	s := NewStd(r)
	s.DrawLive()
	spKey := 4
	spCert := world.MintCert(spKey, s.Epoch.Add(-time.Hour), s.Epoch.Add(1000*time.Hour), 1)
	s.Cfg.EncStyle, s.Cfg.EncKeyIdx, s.Cfg.EncCert = world.KeyField, spKey, spCert
	s.Cfg.MaxBody = limit
	s.Cfg.AllowMissing = true
	if !s.Build() {
		return
	}
	r.Probe("family=" + family)
	lname := fmt.Sprint(limit)
	if limit == 0 {
		lname = "unset"
	}
	r.Probe("limit=" + lname)
	eff := limit
	if eff == 0 || strings.HasPrefix(ep, "DecodeUnverified") {
		eff = c12Default
	}
	now := s.Node.Now()
	ctx := obs("family", family, "configured_limit", limit, "effective_limit", eff, "entry_point", ep)

	// a genuine base of the kind the entry point expects (assertion-signed so that padding
	// inside the Response stays outside any signature)
	var baseMsg *world.LResponse
	issueBase := func(bulk int) string {
		m := baseMsg
		if bulk > 0 {
			c := *baseMsg
			m = &c
			filler := strings.Repeat("x", bulk)
			switch {
			case m.Kind == "LogoutRequest":
				m.NameID = strp(*m.NameID + filler)
			case m.Kind == "LogoutResponse":
				m.InResponseTo += filler
			default:
				a := *m.Assertions[0]
				a.Attrs = append(append([]world.LAttr(nil), a.Attrs...), world.LAttr{Name: "bulk", Values: []string{filler}})
				m.Assertions = []*world.LAssertion{&a}
			}
		}
		x, err := s.IdP.Issue(m, world.Layout{}, r.Sim.Now())
		if err != nil {
			r.HarnessError("issue: %v", err)
			return ""
		}
		return x
	}
	mkBase := func() string {
		switch ep {
		case "ValidateEncodedLogoutRequestPOST":
			baseMsg = world.GenLogout(t, s.IdP, s.Fed, now, "LogoutRequest")
		case "ValidateEncodedLogoutResponsePOST", "DecodeUnverifiedLogoutResponse":
			baseMsg = world.GenLogout(t, s.IdP, s.Fed, now, "LogoutResponse")
		default:
			baseMsg = world.GenResponse(t, s.IdP, s.Fed, now, 1, false)
			baseMsg.Assertions[0].Sign = world.PlainSigOpts(s.IdPKey, s.IdPCert)
		}
		return issueBase(0)
	}

	switch family {
	case "boundary":
		size := eff + delta
		r.Probe(fmt.Sprintf("delta=%+d", delta))
		if delta == 0 {
			r.Probe("delta=0")
		}
		base := "<a></a>"
		if eff >= 1024 && eff < 1<<16 {
			// a small but decodable message of the kind the entry point expects
			kindName := "Response"
			switch ep {
			case "ValidateEncodedLogoutRequestPOST":
				kindName = "LogoutRequest"
			case "ValidateEncodedLogoutResponsePOST", "DecodeUnverifiedLogoutResponse":
				kindName = "LogoutResponse"
			}
			base = `<samlp:` + kindName + ` xmlns:samlp="` + world.NSProtocol + `" xmlns:saml="` + world.NSAssertion + `" ID="_small" Version="2.0" IssueInstant="` + now.UTC().Format(time.RFC3339) + `"><saml:Issuer>` + s.Fed.IdPIssuer + `</saml:Issuer><samlp:Status><samlp:StatusCode Value="` + world.StatusOK + `"/></samlp:Status></samlp:` + kindName + `>`
		}
		if eff >= 1<<16 {
			base = mkBase()
			if base == "" {
				return
			}
		}
		var comp []byte
		var rawDoc func() string
		padN := size - int64(len(base))
		if padN < 0 {
			// the limit is smaller than any document: the smallest documents already exceed it
			base = []string{"<a/>", "<a></a>", "<ab/>"}[sel%3]
			padN = 0
			size = int64(len(base))
		}
		closeAt := strings.LastIndex(base, "</")
		head, tail := base, ""
		if padAfter || closeAt < 0 {
			r.Probe("pad=after-root")
		} else {
			head, tail = base[:closeAt], base[closeAt:]
			r.Probe("pad=inside-root")
		}
		level := []int{6, 9, 1, 0, -2}[sel%5] // 0: stored blocks (the stream is LONGER than its expansion), -2: Huffman only
		comp = deflateRepeat(head, ' ', padN, tail, level)
		rawDoc = func() string { return head + strings.Repeat(" ", int(padN)) + tail }
		r.Fault("boundary_padding")
		enc := world.B64(comp)
		if sel%4 == 1 {
			// a router peeks at the message with the unverified decoders before the SP sees it
			world.Guard(func() error { saml2.DecodeUnverifiedBaseResponse(enc); return nil })
			world.Guard(func() error { saml2.DecodeUnverifiedLogoutResponse(enc); return nil })
			r.Fault("router_peeked_first")
		}
		var oc world.Outcome
		var dc string
		alloc := allocDuring(func() { oc, dc = c12Call(s.Node, ep, enc) })
		r.Steps++
		over := size > eff
		ctx["expansion"], ctx["delta"], ctx["pad_after_root"], ctx["compressed_len"], ctx["alloc"] = size, size-eff, padAfter, len(comp), alloc
		r.Logf("boundary limit=%s eff=%d size=%d ep=%s padAfter=%v -> %s", lname, eff, size, ep, padAfter, oc.Class())
		r.Shape(fmt.Sprintf("boundary.%s.%+d.%s.%v.%s", lname, size-eff, ep, padAfter, oc.Class()))
		r.Sample = obs("family", family, "limit", lname, "effective_limit", eff, "expansion", size, "entry_point", ep, "pad_after_root", padAfter, "outcome", oc.Class())
		if oc.Panic != "" {
			return
		}
		if over {
			if oc.OK() {
				r.Fail("bounded", fmt.Sprintf("C12/over-limit-accepted/%s/padAfter=%v", ep, padAfter), ctx)
			}
			return
		}
		// within the limit: exactly like the same document presented uncompressed
		or, dr := c12Call(s.Node, ep, world.B64([]byte(rawDoc())))
		r.Steps++
		if or.OK() != oc.OK() || world.ErrClass(or.Err) != world.ErrClass(oc.Err) || dr != dc {
			ctx["raw_outcome"], ctx["compressed_outcome"] = fmt.Sprint(or.Err), fmt.Sprint(oc.Err)
			r.Fail("transparent", fmt.Sprintf("C12/within-limit-differs-from-raw/%s/delta=%+d", ep, size-eff), ctx)
		}

	case "bomb", "bomb-in-encrypted":
		ratioSel := sel % 3
		mult := []int64{64, 256, 1024}[ratioSel]
		nominal := eff * mult
		max := int64(64 << 20)
		if thoroughBombs {
			max = 1 << 30
		}
		if nominal > max {
			nominal = max
		}
		if nominal <= eff {
			nominal = eff + 1
		}
		comp := deflateRepeat("<a>", ' ', nominal, "</a>", 9)
		// control: the same number of incompressible bytes through the same wrapping. What the
		// library allocates for it is the cost of handling an input of this size; the bomb may
		// cost at most that plus a few times the limit.
		ctrl := make([]byte, len(comp))
		t.SubRand("c12.ctrl").Read(ctrl)
		wrap := func(payload []byte) string { return world.B64(payload) }
		if family == "bomb-in-encrypted" {
			ep = "ValidateEncodedResponse"
			ctx["entry_point"] = ep
			algo := world.DataAlgs[sel%5]
			rnd := t.SubRand("c12.rand")
			wrap = func(payload []byte) string {
				eo := &world.EncOpts{DataAlg: algo, KeyAlg: world.KeyAlgs[0], Recipient: &world.Key(spKey).RSA.PublicKey, Rand: rnd}
				ex, err := world.EncryptAssertion(eo, payload)
				if err != nil {
					r.HarnessError("encrypt: %v", err)
					return ""
				}
				doc := `<samlp:Response xmlns:samlp="` + world.NSProtocol + `" xmlns:saml="` + world.NSAssertion + `" ID="_b" Version="2.0" IssueInstant="` + now.UTC().Format(time.RFC3339) + `"><saml:Issuer>` + s.Fed.IdPIssuer + `</saml:Issuer><samlp:Status><samlp:StatusCode Value="` + world.StatusOK + `"/></samlp:Status>` + ex + `</samlp:Response>`
				return world.B64([]byte(doc))
			}
			eff = limit
			if eff == 0 {
				eff = c12Default
			}
		}
		enc := wrap(comp)
		encCtrl := wrap(ctrl)
		if r.Harness != "" {
			return
		}
		allocCtrl := allocDuring(func() { c12Call(s.Node, ep, encCtrl) })
		r.Fault("bomb")
		var oc world.Outcome
		alloc := allocDuring(func() { oc, _ = c12Call(s.Node, ep, enc) })
		r.Probe("alloc_measured")
		r.Steps++
		bound := allocCtrl + uint64(8*eff) + 4<<20
		ctx["nominal_expansion"], ctx["compressed_len"], ctx["alloc"], ctx["alloc_control"], ctx["alloc_bound"], ctx["effective_limit"] = nominal, len(comp), alloc, allocCtrl, bound, eff
		r.Logf("%s limit=%s eff=%d nominal=%d ep=%s -> %s within_bound=%v", family, lname, eff, nominal, ep, oc.Class(), alloc <= bound)
		r.Shape(fmt.Sprintf("%s.%s.x%d.%s.%s.%v", family, lname, mult, ep, oc.Class(), alloc <= bound))
		r.Sample = obs("family", family, "limit", lname, "nominal_expansion", nominal, "compressed_len", len(comp), "entry_point", ep, "alloc", alloc, "alloc_bound", bound, "outcome", oc.Class())
		if oc.Panic != "" {
			return
		}
		if oc.OK() {
			r.Fail("bounded", "C12/bomb-accepted/"+ep, ctx)
			return
		}
		if alloc > bound {
			r.Fail("bounded", fmt.Sprintf("C12/bomb-materialised/%s/%s", family, ep), ctx)
		}

	case "metamorphic":
		// a message of the C08 / C03 / C09 workloads, raw and compressed at a drawn level
		kind := sel % 7
		if kind == 6 {
			// the plaintext of an EncryptedAssertion goes through the same "parse, else inflate" step as a
			// top-level message: compressed or not, the outcome is the same
			if limit != 0 && limit < 1<<20 {
				r.Shape("metamorphic.na") // not "within the limit"
				return
			}
			epE := []string{"ValidateEncodedResponse", "RetrieveAssertionInfo"}[sel/7%2]
			mkEnc := func(compressed bool) string {
				idp := &world.IdP{Name: "e"}
				bt := core.NewGenTape(uint64(sel)+99, nil)
				m := world.GenResponse(bt, idp, s.Fed, now, 1, false)
				m.Sign = world.PlainSigOpts(s.IdPKey, s.IdPCert)
				m.Assertions[0].Encrypt = &world.EncOpts{DataAlg: world.DataAlgs[sel%5], KeyAlg: world.KeyAlgs[0], Recipient: &world.Key(spKey).RSA.PublicKey,
					Rand: core.NewDetReader(uint64(sel) + 5), CompressPlaintext: compressed, ZlibStyleEnd: (sel/7)%2 == 1}
				x, err := idp.Issue(m, world.Layout{}, r.Sim.Now())
				if err != nil {
					r.HarnessError("issue: %v", err)
				}
				return x
			}
			xr, xc := mkEnc(false), mkEnc(true)
			if r.Harness != "" {
				return
			}
			r.Fault("recompress")
			r.Probe("encrypted_plaintext_compressed")
			or, dr := c12Call(s.Node, epE, world.B64([]byte(xr)))
			oc, dc := c12Call(s.Node, epE, world.B64([]byte(xc)))
			r.Steps += 2
			r.Logf("metamorphic encrypted-plaintext ep=%s raw=%s compressed=%s", epE, or.Class(), oc.Class())
			r.Shape(fmt.Sprintf("meta.encplain.%s.%s.%s", epE, or.Class(), oc.Class()))
			r.Sample = obs("family", family, "message", "encrypted-plaintext", "entry_point", epE, "raw", or.Class(), "compressed", oc.Class())
			if or.Panic == "" && oc.Panic == "" && (or.OK() != oc.OK() || world.ErrClass(or.Err) != world.ErrClass(oc.Err) || dr != dc) {
				ctx["entry_point"], ctx["raw_err"], ctx["compressed_err"] = epE, fmt.Sprint(or.Err), fmt.Sprint(oc.Err)
				r.Fail("transparent", "C12/compressed-plaintext-differs-from-raw/"+epE, ctx)
			}
			return
		}
		x := mkBase()
		if x == "" {
			return
		}
		desc := "genuine"
		switch kind {
		case 1:
			x = strings.Replace(x, `Version="2.0"`, `Version="1.1"`, 1)
			desc = "nonconforming-version"
		case 2:
			b := []byte(x)
			off := t.Int(len(b), "c12.flip")
			b[off] ^= 1 << uint(t.Int(8, "c12.bit"))
			x = string(b)
			desc = "bitflip"
		case 3:
			x = x[:t.Int(len(x), "c12.cut")]
			desc = "truncated"
		case 4:
			// bytes that are not UTF-8 inside a comment (in front of, or inside, the unsigned envelope)
			if i := strings.Index(x, ">"); t.Bool("c12.commentinside") && i > 0 {
				x = x[:i+1] + "<!-- caf\xe9 \xff\xfe -->" + x[i+1:]
			} else {
				x = "<!-- caf\xe9 -->" + x
			}
			desc = "non-utf8-in-comment"
		case 5:
			x = "<?app note=\"na\xefve\"?>" + x
			desc = "non-utf8-in-pi"
		}
		if limit != 0 && int64(len(x)) > limit {
			// not "within the limit": covered by the boundary family
			r.Shape("metamorphic.na")
			return
		}
		level := []int{6, 1, 9, 0, -1, 4, -2, 100, 101, 102, 103}[encSel]
		var comp []byte
		switch {
		case level <= 9:
			comp = world.Deflate([]byte(x), level) // -2 = Huffman only
		case level == 103:
			// a flushing compressor: an empty dynamic-Huffman block and an empty stored block come first. The
			// first octet of the stream is then a printable character ('<' among them)
			hl := 2 + (sel/7)%8 // (a function of the plan, so that directed cases cover every first octet)
			comp = append(world.LeadingEmptyBlocks(hl), world.Deflate([]byte(x), []int{6, 1, 0}[t.Int(3, "c12.hlit.level")])...)
			r.Probe("encoder=leading-empty-dynamic-block")
			desc += fmt.Sprintf("/leading-empty-blocks(first-octet=%#x)", comp[0])
		case level == 100:
			// stored blocks of drawn sizes with drawn padding bits in every block header
			rs := core.NewSplitMix(uint64(t.Draw(1<<32, "c12.stored")) + 3)
			var sizes []int
			for i := 0; i < 40; i++ {
				sizes = append(sizes, 1+int(rs.Next()%uint64(1+len(x))))
			}
			comp = world.StoredDeflate([]byte(x), sizes, func(int) byte { return byte(rs.Next()) }, rs.Next()%2 == 0)
			r.Probe("encoder=stored-blocks")
		default:
			// stored blocks whose headers consist of characters that are legal in XML text, so that the
			// stream read as a raw document stays well-formed across block boundaries; the boundaries
			// fall inside (signed) content. 101: the final block is an empty one (octets 01 00 00 ff ff),
			// 102: the final block header is text-clean as well
			if kind > 1 || limit != 0 {
				r.Shape("metamorphic.na")
				return
			}
			rs := core.NewSplitMix(uint64(t.Draw(1<<32, "c12.stored")) + 5)
			var sizes []int
			total := 0
			for i := 0; i < 2+int(rs.Next()%2); i++ {
				n := 0
				for !world.TextCleanBlockLen(n) {
					n = 0x4020 + int(rs.Next()%0x3f00)
				}
				sizes = append(sizes, n)
				total += n
			}
			x1 := issueBase(1)
			x = issueBase(1 + total - len(x1))
			if kind == 1 {
				x = strings.Replace(x, `Version="2.0"`, `Version="1.1"`, 1)
			}
			if len(x) != total {
				r.HarnessError("bulk base has length %d, wanted %d", len(x), total)
				return
			}
			hdr := func(i int) byte {
				if i == len(sizes)-1 && level == 102 {
					return 0x08 // with BFINAL this is a TAB
				}
				return world.TextCleanHeaders[rs.Next()%uint64(len(world.TextCleanHeaders))]
			}
			comp = world.StoredDeflate([]byte(x), append(sizes, 0), hdr, level == 101)
			r.Probe("encoder=stored-blocks-text-clean")
			desc += fmt.Sprintf("/stored-text-clean(final-clean=%v,blocks=%d)", level == 102, len(sizes))
		}
		// the stream must inflate to the message (harness self-check)
		if inf, err := world.Inflate(comp); err != nil || string(inf) != x {
			r.HarnessError("hand-made DEFLATE stream does not inflate to the message: %v", err)
			return
		}
		r.Fault("recompress")
		or, dr := c12Call(s.Node, ep, world.B64([]byte(x)))
		oc, dc := c12Call(s.Node, ep, world.B64(comp))
		r.Steps += 2
		ctx["message"], ctx["level"], ctx["raw_err"], ctx["compressed_err"] = desc, level, fmt.Sprint(or.Err), fmt.Sprint(oc.Err)
		r.Logf("metamorphic %s ep=%s level=%d raw=%s compressed=%s", desc, ep, level, or.Class(), oc.Class())
		r.Shape(fmt.Sprintf("meta.%s.%s.%d.%s.%s.%s", desc, ep, level, lname, or.Class(), oc.Class()))
		r.Sample = obs("family", family, "message", desc, "entry_point", ep, "level", level, "raw", or.Class(), "compressed", oc.Class())
		if or.Panic != "" || oc.Panic != "" {
			return
		}
		if or.OK() != oc.OK() || world.ErrClass(or.Err) != world.ErrClass(oc.Err) || dr != dc {
			ctx["raw_data"], ctx["compressed_data"] = trunc(dr, 400), trunc(dc, 400)
			r.Fail("transparent", "C12/compressed-differs-from-raw/"+ep+"/"+desc, ctx)
		}
	}
}

var thoroughBombs = false

// SetTier lets the worker tell profiles which tier runs (only used to size bombs).
func SetTier(tier string) { thoroughBombs = tier == "thorough" }
