package props

import (
	"fmt"
	"regexp"
	"strings"
	"time"

	saml2 "github.com/russellhaering/gosaml2"

	"verifsim/core"
	"verifsim/world"
)

// C20 — the unverified pre-decode agrees with what full validation later returns.
// Multi-IdP world behind a router stub: every message first goes through the real
// DecodeUnverified* functions; whenever full validation under ANY configured SP accepts,
// the pre-decode must have succeeded with the same ID, InResponseTo, Destination,
// Version and Issuer, raw and compressed. Fit is thin (no fault or schedule essential).

var c20Ops = []string{"none", "dup-id", "dup-destination", "shadow-id-before", "shadow-id-after", "shadow-all-after", "second-issuer-last", "second-issuer-first", "issuer-after-status",
	"nested-issuer", "foreign-ns-issuer", "comment-in-issuer", "cdata-in-issuer", "charref-in-issuer", "whitespace-around-issuer", "xml-decl-and-comment", "dup-version", "dup-inresponseto", "issuer-empty-then-real", "trailing-issuer", "pi-in-issuer", "pi-before-issuer-text", "envelope-issuer-differs",
	"encrypted-issuer-after-issuer", "encrypted-issuer-last", "encrypted-issuer-first", "encrypted-status-last",
	"nsdecl-id-after", "nsdecl-id-before", "nsdecl-all-after", "second-root-trailing", "second-root-leading", "nsdecl-id-used-in-keyinfo", "polyglot-directive-stored-block",
	// children of the wrapper that are named like something the decoders know but live in another namespace
	// (extension content), and root attributes taken away
	"foreign-ns-signature-child-first", "foreign-ns-signature-child-last", "foreign-ns-unqualified-signature-child", "foreign-ns-assertion-child", "version-stripped", "destination-stripped"}

// operators an attacker can apply to a SIGNED envelope as well: namespace declarations for prefixes
// nobody uses are dropped by exclusive canonicalisation, so the signature still verifies
var c20SignedSafe = map[string]bool{"nsdecl-id-after": true, "nsdecl-id-before": true, "nsdecl-all-after": true, "second-root-trailing": true, "second-root-leading": true, "nsdecl-id-used-in-keyinfo": true, "polyglot-directive-stored-block": true}

// the SPs behind the router share one decryption key (anyone can encrypt to its certificate)
const c20SPKey = 4

func init() {
	register(&Prop{
		ID:    "C20",
		Level: "exploration",
		Rule: "seeded multi-IdP federation runs behind a router stub: SSO Responses and LogoutResponses of two IdPs in every layout of C08 (prefix styles, attribute order, comments, XML declaration, whitespace, DEFLATE), and attacker-shaped envelopes (duplicated / shadowed root attributes, several / nested / foreign-namespace Issuer elements, comments, CDATA and character references inside Issuer) on messages whose envelope is not signed or for SPs with checking off; " +
			"oracle: whenever validation under any configured SP accepts, the pre-decode succeeded and reports the same ID, InResponseTo, Destination, Version, Issuer, so the routed-to configuration is the accepting one; distinct = shape hash (kind, placement, layout, envelope ops, presentation, outcomes)",
		Directed:   c20Directed,
		Run:        c20Run,
		MustHit:    []string{"kind=Response", "kind=LogoutResponse", "op=dup-id", "op=shadow-id-after", "op=second-issuer-last", "op=second-issuer-first", "op=nested-issuer", "op=comment-in-issuer", "compressed", "skip_config", "accepted_with_ops", "route_to_B", "op=pi-in-issuer", "issuer_unconfigured", "op=encrypted-issuer-after-issuer", "op=encrypted-issuer-last", "op=nsdecl-id-after", "op=second-root-trailing", "op=polyglot-directive-stored-block", "signed_envelope_shaped", "message_of_megabytes_compressed", "idp_signed_shadow_attributes"},
		RandomRuns: map[string]int{"quick": 6000, "thorough": 80000},
	})
}

// draw order: kind, who, place, skip, op1, op2, compress
func c20Directed(tier string) [][]uint64 {
	var out [][]uint64
	for kind := uint64(0); kind < 2; kind++ {
		for who := uint64(0); who < 2; who++ {
			for place := uint64(0); place < 3; place++ {
				for skip := uint64(0); skip < 2; skip++ {
					for op := uint64(0); op < uint64(len(c20Ops)); op++ {
						if tier == "quick" && (kind+who+place+skip+op)%3 != 0 {
							continue
						}
						out = append(out, []uint64{kind, who, place, skip, op, 0, (op + place) % 2})
					}
				}
			}
		}
		for place := uint64(0); place < 3; place++ {
			out = append(out, []uint64{kind, 0, place, 0, 0, 0, 1, 1}) // megabytes, compressed
		}
		out = append(out, []uint64{kind, 0, 0, 0, 0, 0, 1, 1, 1}) // between the default and a raised limit
		if tier != "quick" {
			out = append(out, []uint64{kind, 1, 1, 0, 0, 0, 1, 1, 1}, []uint64{kind, 0, 2, 0, 0, 0, 1, 1, 1}, []uint64{kind, 1, 0, 1, 0, 0, 1, 1, 1})
		}
	}
	return out
}

func c20Run(r *core.Run) {
	t := r.Tape
	kind := []string{"Response", "LogoutResponse"}[t.Int(2, "c20.kind")]
	who := t.Int(2, "c20.who")
	place := t.Int(3, "c20.place")
	skip := t.Int(2, "c20.skip") == 1
	op1 := c20Ops[t.Int(len(c20Ops), "c20.op1")]
	op2 := c20Ops[t.Int(len(c20Ops), "c20.op2")]
	compress := t.Int(2, "c20.compress") == 1
	big := t.Int(150, "c20.big") == 1 // a message of 1-4 MiB (below every limit), always presented compressed too
	// the deployment raised MaximumDecompressedBodySize (8 MiB) and the message inflates to 5.5-7 MiB: above the
	// default limit, below the configured one
	raised := big && t.Int(3, "c20.big.raised") == 1

	s := NewStd(r)
	r.Probe("kind=" + kind)
	if skip {
		r.Probe("skip_config")
	}
	if compress {
		r.Probe("compressed")
	}
	// two IdPs, one SP configuration per IdP (same ACS: the router decides)
	issuers := []string{"https://idp-a.example/meta", "https://idp-b.example/meta"}
	if t.Chance(300, "c20.hostileissuer") {
		issuers[0] = "https://idp-a.example/meta?" + world.DrawValue(t, "c20.issuer.a")
		issuers[1] = "https://idp-b.example/meta?" + world.DrawValue(t, "c20.issuer.b")
		if issuers[0] == issuers[1] {
			issuers[1] += "b"
		}
	}
	noIssuerPinned := t.Int(4, "c20.noissuer") == 1
	if noIssuerPinned {
		r.Probe("issuer_unconfigured")
	}
	keys := []int{0, 1}
	var nodes []*world.SPNode
	var certs []*world.Cert
	for i := 0; i < 2; i++ {
		c := world.MintCert(keys[i], s.Epoch.Add(-time.Hour), s.Epoch.Add(1000*time.Hour), int64(i))
		certs = append(certs, c)
		cfg := *s.Cfg
		cfg.Name = fmt.Sprintf("sp-for-idp-%c", 'A'+i)
		cfg.IdPIssuer = issuers[i]
		if noIssuerPinned {
			cfg.IdPIssuer = ""
		}
		cfg.Store = &world.SimCertStore{Certs: []*world.Cert{c}}
		cfg.SkipSig = skip
		cfg.AllowMissing = true
		if raised {
			cfg.MaxBody = 8 << 20
		}
		cfg.EncStyle, cfg.EncKeyIdx, cfg.EncCert = world.KeyField, c20SPKey, world.MintCert(c20SPKey, s.Epoch.Add(-time.Hour), s.Epoch.Add(1000*time.Hour), 3)
		n, err := world.NewSPNode(&cfg, r.Sim.Time)
		if err != nil {
			r.HarnessError("build: %v", err)
			return
		}
		nodes = append(nodes, n)
	}
	now := nodes[0].Now()
	fed := s.Fed
	fed.IdPIssuer = issuers[who]
	idp := &world.IdP{Name: string(rune('A' + who))}
	var m *world.LResponse
	if kind == "Response" {
		m = world.GenResponse(t, idp, fed, now, 1+t.Int(2, "c20.n"), true)
		mk := func() *world.SigOpts { return world.DrawSigOpts(t, keys[who], certs[who]) }
		if place == PlaceResponse || place == PlaceBoth {
			m.Sign = mk()
		}
		for _, a := range m.Assertions {
			if place == PlaceAssertions || place == PlaceBoth {
				a.Sign = mk()
				a.Sign.EmptyURI = false
			}
		}
	} else {
		m = world.GenLogout(t, idp, fed, now, "LogoutResponse")
		if place != PlaceAssertions {
			m.Sign = world.DrawSigOpts(t, keys[who], certs[who])
		}
	}
	if big {
		m.InResponseTo = "_req" + strings.Repeat("x", (1<<20)+t.Int(3<<20, "c20.big.n"))
		compress = true
		r.Probe("message_of_megabytes_compressed")
		if raised {
			m.InResponseTo = "_req" + strings.Repeat("x", (11<<19)+t.Int(3<<19, "c20.big.n2"))
			r.Probe("message_between_default_and_configured_limit")
		}
	}
	lay := world.DrawLayout(t)
	if sh := t.Int(12, "c20.idpshadow"); sh >= 1 && sh <= 6 {
		// the IdP itself (and its signature) carries vendor attributes spelled like the SAML ones
		lay.ShadowRoot, lay.Shuffle = sh, false
		r.Probe("idp_signed_shadow_attributes")
	}
	xml, err := idp.Issue(m, lay, r.Sim.Now())
	if err != nil {
		r.HarnessError("issue: %v", err)
		return
	}
	// the adversary (or a sloppy IdP) shapes the envelope; only possible where it is not signed
	envelopeFree := m.Sign == nil || skip
	applied := ""
	{
		for _, op := range []string{op1, op2} {
			if op == "none" || (!envelopeFree && !c20SignedSafe[op]) {
				continue
			}
			if !envelopeFree {
				r.Probe("signed_envelope_shaped")
			}
			nx, ok := c20Apply(xml, op, m, issuers[1-who])
			if ok {
				xml = nx
				applied += op + ","
				r.Fault("shape_envelope")
				r.Probe("op=" + op)
			}
		}
	}
	level := []int{6, 1, 9}[t.Int(3, "c20.level")]
	enc := world.Present(xml, compress, level)
	if t.Int(6, "c20.ambient") == 1 {
		s.NeighbourNoise(enc)
	}

	// router: pre-decode first
	type pre struct {
		ok                             bool
		id, irt, dest, version, issuer string
		hasIssuer                      bool
	}
	var p pre
	var pout world.Outcome
	if kind == "Response" {
		pout = world.Guard(func() error {
			u, e := saml2.DecodeUnverifiedBaseResponse(enc)
			if e == nil && u != nil {
				p = pre{true, u.ID, u.InResponseTo, u.Destination, u.Version, "", u.Issuer != nil}
				if u.Issuer != nil {
					p.issuer = u.Issuer.Value
				}
			}
			return e
		})
	} else {
		pout = world.Guard(func() error {
			u, e := saml2.DecodeUnverifiedLogoutResponse(enc)
			if e == nil && u != nil {
				p = pre{true, u.ID, u.InResponseTo, u.Destination, u.Version, "", u.Issuer != nil}
				if u.Issuer != nil {
					p.issuer = u.Issuer.Value
				}
			}
			return e
		})
	}
	r.Steps++
	outcomes := pout.Class()[:1]
	for i, n := range nodes {
		var v pre
		var out world.Outcome
		if kind == "Response" {
			resp, o := n.ValidateResponse(enc)
			out = o
			if o.OK() {
				v = pre{true, resp.ID, resp.InResponseTo, resp.Destination, resp.Version, "", resp.Issuer != nil}
				if resp.Issuer != nil {
					v.issuer = resp.Issuer.Value
				}
			}
		} else {
			resp, o := n.LogoutResponse(enc)
			out = o
			if o.OK() {
				v = pre{true, resp.ID, resp.InResponseTo, resp.Destination, resp.Version, "", resp.Issuer != nil}
				if resp.Issuer != nil {
					v.issuer = resp.Issuer.Value
				}
			}
		}
		r.Steps++
		outcomes += out.Class()[:1]
		if out.Panic != "" || !out.OK() {
			continue
		}
		if applied != "" {
			r.Probe("accepted_with_ops")
		}
		if i == 1 {
			r.Probe("route_to_B")
		}
		ctx := obs("kind", kind, "issued_by", string(rune('A'+who)), "accepting_config", n.Cfg.Name, "envelope_ops", applied, "place", placeNames[place], "skip", skip, "compressed", compress, "layout", lay.Sig(),
			"pre", fmt.Sprintf("%+v", p), "validated", fmt.Sprintf("%+v", v), "pre_err", fmt.Sprint(pout.Err), "delivered", trunc(xml, 1500))
		if !p.ok {
			sig := "C20/accepted-but-pre-decode-failed/" + kind
			if raised && strings.Contains(fmt.Sprint(pout.Err), "exceeds maximum size") {
				sig += "/inflated-size-between-default-and-configured-limit"
				ctx["delivered"] = trunc(xml, 300)
			}
			r.Fail("agree", sig, ctx)
			break
		}
		for _, f := range [][3]string{{"ID", p.id, v.id}, {"InResponseTo", p.irt, v.irt}, {"Destination", p.dest, v.dest}, {"Version", p.version, v.version}, {"Issuer", p.issuer, v.issuer}} {
			if f[1] != f[2] {
				ctx["field"] = f[0]
				r.Fail("agree", fmt.Sprintf("C20/pre-decode-differs/%s/%s", kind, f[0]), ctx)
				break
			}
		}
		if p.hasIssuer != v.hasIssuer && !r.Failed() {
			r.Fail("agree", "C20/pre-decode-differs/"+kind+"/Issuer-presence", ctx)
		}
		// the configuration chosen from the pre-decode is the accepting one
		if !r.Failed() && !skip && !noIssuerPinned && p.issuer != n.Cfg.IdPIssuer {
			r.Fail("route", "C20/routed-to-other-configuration", ctx)
		}
	}
	r.Logf("kind=%s by=%c place=%s skip=%v ops=%s compress=%v layout=%s -> pre,A,B=%s", kind, 'A'+who, placeNames[place], skip, applied, compress, lay.Sig(), outcomes)
	r.Shape(fmt.Sprintf("%s.%d.%s.sk%v.%s.c%v.%s.%s", kind, who, placeNames[place], skip, applied, compress, lay.Sig(), outcomes))
	r.Sample = obs("kind", kind, "issued_by", string(rune('A'+who)), "place", placeNames[place], "skip", skip, "envelope_ops", applied, "compressed", compress, "outcomes(pre,A,B)", outcomes)
}

// c20Apply shapes the (unsigned) envelope of xml. other is the other IdP's issuer string.
func c20Apply(xml, op string, m *world.LResponse, other string) (string, bool) {
	idAttr := func(q string) string { return `ID=` + q + m.ID + q }
	q := `"`
	if !strings.Contains(xml, idAttr(q)) {
		q = `'`
		if !strings.Contains(xml, idAttr(q)) {
			return xml, false
		}
	}
	esc := strings.NewReplacer("&", "&amp;", "<", "&lt;", `"`, "&quot;", "'", "&apos;", "\r", "&#xD;", "\n", "&#xA;", "\t", "&#x9;")
	otherText := strings.NewReplacer("&", "&amp;", "<", "&lt;", ">", "&gt;", "\r", "&#xD;").Replace(other)
	// the root Issuer element text: from the first "Issuer" start tag end to its end tag
	issStart := strings.Index(xml, "Issuer")
	if issStart < 0 {
		return xml, false
	}
	lt := strings.LastIndex(xml[:issStart], "<")
	gt := strings.Index(xml[issStart:], ">") + issStart
	end := issuerEnd.FindStringIndex(xml[gt:])
	if lt < 0 || end == nil {
		return xml, false
	}
	issEl := xml[lt : gt+end[1]] // whole element
	issOpen := xml[lt : gt+1]    // start tag
	issClose := xml[gt+end[0] : gt+end[1]]
	issText := xml[gt+1 : gt+end[0]]
	otherEl := issOpen + otherText + issClose
	switch op {
	case "dup-id":
		return strings.Replace(xml, idAttr(q), idAttr(q)+` ID=`+q+`_evil`+q, 1), true
	case "dup-destination":
		return strings.Replace(xml, idAttr(q), idAttr(q)+` Destination=`+q+`https://evil.example/acs`+q, 1), true
	case "dup-version":
		return strings.Replace(xml, idAttr(q), `Version=`+q+`1.1`+q+` `+idAttr(q), 1), true
	case "dup-inresponseto":
		return strings.Replace(xml, idAttr(q), idAttr(q)+` InResponseTo=`+q+`_evil_irt`+q, 1), true
	case "second-root-trailing", "second-root-leading":
		// a second top-level element (Go's decoder and etree tolerate it): a copy of the message with
		// another ID and the other IdP's issuer
		body := xml
		decl := ""
		if strings.HasPrefix(body, "<?xml") {
			if i := strings.Index(body, "?>"); i > 0 {
				decl, body = body[:i+2], body[i+2:]
			}
		}
		evil := strings.Replace(body, idAttr(q), `ID=`+q+`_trailer`+q, 1)
		evil = strings.Replace(evil, issEl, otherEl, 1)
		if op == "second-root-trailing" {
			return decl + body + evil, true
		}
		return decl + evil + body, true
	case "polyglot-directive-stored-block":
		// octets that are BOTH a document (TAB, a directive "<!...>" swallowing another message, then the
		// genuine message) AND a DEFLATE stream (one final stored block, header 09 3c 21 c3 de, holding that other
		// message): whoever tries "inflate" before "parse" reads another message than whoever parses first
		if strings.ContainsAny(other, "\"'<>") || strings.HasPrefix(xml, "<?xml") {
			return xml, false
		}
		const blockLen = 0x213c // LEN octets "<!"
		name := "Response"
		if m.Kind != "Response" {
			name = m.Kind
		}
		head := `<samlp:` + name + ` xmlns:samlp="` + world.NSProtocol + `" xmlns:saml="` + world.NSAssertion + `" ID="_polyglot" InResponseTo="_poly_irt" Version="2.0" IssueInstant="2001-01-01T00:00:00Z" x="`
		tail := `"><saml:Issuer>` + otherText + `</saml:Issuer><samlp:Status><samlp:StatusCode Value="` + world.StatusOK + `"/></samlp:Status></samlp:` + name + `>`
		fill := blockLen - len(head) - len(tail)
		if fill < 0 {
			return xml, false
		}
		inner := head + strings.Repeat("a", fill) + tail
		return "\t<!\xc3\xde" + inner + ">" + xml, true
	case "nsdecl-id-used-in-keyinfo":
		// the declared prefix IS used, but only inside ds:KeyInfo, which no signature covers (and which the
		// enveloped-signature transform removes before canonicalisation)
		ki := regexp.MustCompile(`<([A-Za-z0-9]+:)?KeyInfo\b[^>]*>`).FindStringIndex(xml)
		if ki == nil {
			return xml, false
		}
		x2 := xml[:ki[1]] + `<ID:hint/>` + xml[ki[1]:]
		return strings.Replace(x2, idAttr(q), idAttr(q)+` xmlns:ID=`+q+`_evil`+q, 1), true
	case "nsdecl-id-after":
		return strings.Replace(xml, idAttr(q), idAttr(q)+` xmlns:ID=`+q+`_evil`+q, 1), true
	case "nsdecl-id-before":
		return strings.Replace(xml, idAttr(q), `xmlns:ID=`+q+`_evil`+q+` `+idAttr(q), 1), true
	case "nsdecl-all-after":
		return strings.Replace(xml, idAttr(q), idAttr(q)+` xmlns:ID=`+q+`_evil`+q+` xmlns:Destination=`+q+`https://evil.example/`+q+` xmlns:Version=`+q+`9`+q+` xmlns:InResponseTo=`+q+`_e`+q, 1), true
	case "shadow-id-before":
		return strings.Replace(xml, idAttr(q), `xmlns:x=`+q+`urn:x`+q+` x:ID=`+q+`_evil`+q+` `+idAttr(q), 1), true
	case "shadow-id-after":
		return strings.Replace(xml, idAttr(q), idAttr(q)+` xmlns:x=`+q+`urn:x`+q+` x:ID=`+q+`_evil`+q, 1), true
	case "shadow-all-after":
		return strings.Replace(xml, idAttr(q), idAttr(q)+` xmlns:x=`+q+`urn:x`+q+` x:ID=`+q+`_evil`+q+` x:Destination=`+q+`https://evil.example/`+q+` x:Version=`+q+`9`+q+` x:InResponseTo=`+q+`_e`+q, 1), true
	case "second-issuer-last":
		return strings.Replace(xml, issEl, issEl+otherEl, 1), true
	case "second-issuer-first":
		return strings.Replace(xml, issEl, otherEl+issEl, 1), true
	case "issuer-empty-then-real":
		return strings.Replace(xml, issEl, issOpen+issClose+issEl, 1), true
	case "issuer-after-status", "trailing-issuer":
		// a second Issuer as the last child of the root
		i := strings.LastIndex(xml, "</")
		return xml[:i] + otherEl + xml[i:], true
	case "nested-issuer":
		i := strings.LastIndex(xml, "</")
		name := xml[i+2 : len(xml)-1]
		pfx := ""
		if k := strings.Index(name, ":"); k >= 0 {
			pfx = name[:k+1]
		}
		return xml[:i] + "<" + pfx + "Extensions>" + otherEl + "</" + pfx + "Extensions>" + xml[i:], true
	case "foreign-ns-issuer":
		return strings.Replace(xml, issEl, `<z:Issuer xmlns:z="urn:z">`+otherText+`</z:Issuer>`+issEl, 1), true
	case "comment-in-issuer":
		if len(issText) < 2 {
			return xml, false
		}
		return strings.Replace(xml, issEl, issOpen+issText[:1]+"<!--"+esc.Replace("x")+"-->"+issText[1:]+issClose, 1), true
	case "cdata-in-issuer":
		return strings.Replace(xml, issEl, issOpen+"<![CDATA[]]>"+issText+"<![CDATA[]]>"+issClose, 1), true
	case "charref-in-issuer":
		if len(issText) < 1 || issText[0] == '&' || issText[0] == '<' || issText[0] >= 0x80 {
			return xml, false
		}
		return strings.Replace(xml, issEl, issOpen+fmt.Sprintf("&#x%x;", issText[0])+issText[1:]+issClose, 1), true
	case "pi-in-issuer":
		if len(issText) < 2 {
			return xml, false
		}
		cut := len(issText) / 2
		for cut > 0 && (issText[cut]&0xC0 == 0x80 || issText[cut-1] == '&' || strings.ContainsAny(issText[max0(cut-6):cut], "&")) {
			cut--
		}
		if cut == 0 {
			return xml, false
		}
		return strings.Replace(xml, issEl, issOpen+issText[:cut]+"<?idp tenant=\"7\"?>"+issText[cut:]+issClose, 1), true
	case "pi-before-issuer-text":
		return strings.Replace(xml, issEl, issOpen+"<?idp x?>"+issText+issClose, 1), true
	case "envelope-issuer-differs":
		// only meaningful where no issuer is pinned: the envelope names another issuer than the assertions
		return strings.Replace(xml, issEl, otherEl, 1), true
	case "whitespace-around-issuer":
		return strings.Replace(xml, issEl, "\n  "+issEl+"\n  ", 1), true
	case "encrypted-issuer-after-issuer", "encrypted-issuer-last", "encrypted-issuer-first", "encrypted-status-last":
		// an EncryptedAssertion element whose plaintext is not an assertion but another child of the
		// envelope: whatever the SP splices in after decryption, the pre-decoder cannot see
		pt := `<saml:Issuer xmlns:saml="` + world.NSAssertion + `">` + otherText + `</saml:Issuer>`
		if op == "encrypted-status-last" {
			pt = `<samlp:Status xmlns:samlp="` + world.NSProtocol + `"><samlp:StatusCode Value="` + world.StatusOK + `"/></samlp:Status>`
		}
		eo := &world.EncOpts{DataAlg: world.DataAlgs[0], KeyAlg: world.KeyAlgs[0], Recipient: &world.Key(c20SPKey).RSA.PublicKey, Rand: core.NewDetReader(uint64(len(xml)) + 11)}
		ex, err := world.EncryptAssertion(eo, []byte(pt))
		if err != nil {
			return xml, false
		}
		switch op {
		case "encrypted-issuer-after-issuer":
			return strings.Replace(xml, issEl, issEl+ex, 1), true
		case "encrypted-issuer-first":
			return strings.Replace(xml, issEl, ex+issEl, 1), true
		}
		i := strings.LastIndex(xml, "</")
		return xml[:i] + ex + xml[i:], true
	case "foreign-ns-signature-child-first", "foreign-ns-signature-child-last", "foreign-ns-unqualified-signature-child", "foreign-ns-assertion-child":
		el := `<audit:Signature xmlns:audit="urn:example:audit" by="router-7">c2lnbmVkLW9mZi1ieS1hdWRpdA==</audit:Signature>`
		switch op {
		case "foreign-ns-unqualified-signature-child":
			el = `<Signature xmlns="urn:example:audit"><SignedInfo>not xmldsig</SignedInfo></Signature>`
		case "foreign-ns-assertion-child":
			el = `<audit:Assertion xmlns:audit="urn:example:audit" ID="_audit1">routed</audit:Assertion>`
		}
		if op == "foreign-ns-signature-child-first" {
			return strings.Replace(xml, issEl, issEl+el, 1), true
		}
		i := strings.LastIndex(xml, "</")
		return xml[:i] + el + xml[i:], true
	case "version-stripped":
		for _, v := range []string{` Version=` + q + `2.0` + q} {
			if i := strings.Index(xml, v); i > 0 && i < strings.Index(xml, ">") {
				return xml[:i] + xml[i+len(v):], true
			}
		}
		return xml, false
	case "destination-stripped":
		gtRoot := strings.Index(xml, ">")
		i := strings.Index(xml, ` Destination=`+q)
		if i < 0 || i > gtRoot {
			return xml, false
		}
		j := strings.Index(xml[i+14:], q)
		if j < 0 {
			return xml, false
		}
		return xml[:i] + xml[i+14+j+1:], true
	case "xml-decl-and-comment":
		if strings.HasPrefix(xml, "<?xml") {
			return xml, false
		}
		return `<?xml version="1.0" encoding="UTF-8" standalone="no"?>` + "\n<!-- routed -->\n" + xml, true
	}
	return xml, false
}

func max0(a int) int {
	if a < 0 {
		return 0
	}
	return a
}
