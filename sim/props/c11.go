package props

import (
	"bytes"
	"crypto/tls"
	"encoding/xml"
	"fmt"
	"strings"
	"time"

	saml2 "github.com/russellhaering/gosaml2"
	"github.com/russellhaering/gosaml2/types"

	"verifsim/core"
	"verifsim/world"
)

// C11 — every advertised encryption method round-trips exactly, on both key APIs.
// Two-party leg: the IdP stub encrypts to the certificate the SP publishes, the SP
// decrypts. Part A: byte equality of DecryptBytes over every plaintext length; part B:
// the encrypted Response behaves exactly like its plaintext twin under every way of
// configuring the SP key (field, TLS field, setter, both, after restart).
// Fit is thin: what decides is enumeration of the grid against byte equality.

var c11KeyStyles = []world.KeyStyle{world.KeyField, world.KeyTLS, world.KeySetter, world.KeyBoth, world.KeyBothDiffer, world.KeyBothDifferTLS}

func init() {
	register(&Prop{
		ID:    "C11",
		Level: "fault_enumeration",
		Rule: "enumerated grid: data algorithm (AES-128/192/256-GCM, AES-128/256-CBC) x key transport (OAEP-MGF1P, OAEP 1.1 x {no digest, SHA-1, SHA-256, SHA-512}, PKCS#1 v1.5) x {inline, detached EncryptedKey} x {no recipient certificate, matching} x SP key configuration {field, TLS field, setter, both} x {fresh, after restart}; " +
			"per cell: DecryptBytes over plaintext lengths 0..33 (all residues mod 16, zero-byte tails) must return the exact bytes, Decrypt must unmarshal, and the encrypted Response must behave as its plaintext twin (outcome, data, flags); distinct = shape hash (cell, length mode, placement, outcome)",
		Directed:   c11Directed,
		Run:        c11Run,
		MustHit:    []string{"key=field", "key=tls", "key=setter", "key=both", "key=both-differ", "key=both-differ-tls", "sp_restart", "detached", "inline", "pkcs1v15", "oaep_sha512", "cbc", "gcm", "zero_tail", "len_mod16=0", "twin", "key_rotation", "advertised_method_exercised", "envelopes_differ_within_response", "encrypted_assertion_prefix_declared_on_root_only", "encrypted_key_with_recipient_attribute", "base64_in_lines"},
		RandomRuns: map[string]int{"quick": 1200, "thorough": 8000},
		Assumptions: []string{"encrypted layouts are exercised with signature checking on (with SkipSignatureValidation the library never decrypts; outside this property's quantifier)",
			"OAEP / PKCS#1 v1.5 ciphertext bytes are not replayable in Go (hidden randomness) and are excluded from run digests"},
	})
}

// draw order: dataAlg, keyAlg, digest, detached, embed, keyStyle, restart, lenMode
func c11Directed(tier string) [][]uint64 {
	var out [][]uint64
	for da := uint64(0); da < 5; da++ {
		for ka := uint64(0); ka < 3; ka++ {
			for dg := uint64(0); dg < 4; dg++ {
				if ka == 2 && dg != 0 {
					continue
				}
				for det := uint64(0); det < 2; det++ {
					for emb := uint64(0); emb < 2; emb++ {
						for ks := uint64(0); ks < 6; ks++ {
							for rs := uint64(0); rs < 2; rs++ {
								if tier == "quick" && (da+ka*2+dg+det+emb+ks*3+rs)%7 != 0 {
									continue
								}
								out = append(out, []uint64{da, ka, dg, det, emb, ks, rs, 0, (da + ka + ks + rs) % 5})
							}
						}
					}
				}
			}
		}
	}
	return out
}

func c11Run(r *core.Run) {
	t := r.Tape
	o := &world.EncOpts{}
	o.DataAlg = world.DataAlgs[t.Int(5, "c11.data")]
	o.KeyAlg = world.KeyAlgs[t.Int(3, "c11.key")]
	dg := t.Int(4, "c11.digest")
	if o.KeyAlg != types.MethodRSAv1_5 {
		o.Digest = world.OAEPDigests[dg]
	}
	o.Detached = t.Bool("c11.detached")
	embed := t.Bool("c11.embed")
	ksi := t.Int(len(c11KeyStyles), "c11.keystyle")
	restart := t.Bool("c11.restart")
	lenMode := t.Int(40, "c11.lenmode") // 0 = sweep 0..33, else that length-1 (+ large)
	rotate := t.Int(5, "c11.rotate")    // 0 none; key rotation on the live SP: 1 setter->setter 2 field->field 3 field->setter 4 setter->field-cleared
	ks := c11KeyStyles[ksi]
	o.EnvelopeNSFromRoot = t.Int(3, "c11.nsfromroot") == 1 // the EncryptedAssertion element relies on the root's xmlns:saml
	o.RecipientAttr = []string{"", "", "https://sp.example/acs", "https://sp.example/meta", "sp-alias", " "}[t.Int(6, "c11.recipientattr")]
	o.B64Wrap = t.Int(3, "c11.b64wrap")
	if o.RecipientAttr != "" {
		r.Probe("encrypted_key_with_recipient_attribute")
	}
	if o.B64Wrap != 0 {
		r.Probe("base64_in_lines")
	}

	s := NewStd(r)
	s.DrawLive()
	spKey := 4 + t.Int(2, "c11.spkey")
	spCert := world.MintCert(spKey, s.Epoch.Add(-24*time.Hour), s.Epoch.Add(24*time.Hour), 1)
	o.Recipient = &world.Key(spKey).RSA.PublicKey
	if embed {
		o.EmbedCert = spCert.DER
	}
	o.Rand = t.SubRand("c11.rand")
	s.Cfg.EncStyle, s.Cfg.EncKeyIdx, s.Cfg.EncCert = ks, spKey, spCert
	if rs := t.Int(8, "c11.rejectedsetter"); rs >= 1 && rs <= 3 {
		s.Cfg.RejectedSetters = rs // an attempted rotation to a key that failed to load: refused, changes nothing
		r.Fault("key_rotation_refused_by_the_sp")
	}
	if !s.Build() {
		return
	}
	r.Probe("key=" + ks.String())
	if o.Detached {
		r.Probe("detached")
	} else {
		r.Probe("inline")
	}
	if o.KeyAlg == types.MethodRSAv1_5 {
		r.Probe("pkcs1v15")
	}
	if o.Digest == types.MethodSHA512 {
		r.Probe("oaep_sha512")
	}
	cbc := o.DataAlg == types.MethodAES128CBC || o.DataAlg == types.MethodAES256CBC
	if cbc {
		r.Probe("cbc")
	} else {
		r.Probe("gcm")
	}
	cell := fmt.Sprintf("%s/key=%s", o.Sig(), ks)
	r.Logf("cell %s restart=%v lenmode=%d", cell, restart, lenMode)

	// ---- before anything else: the holder of another key is handed an assertion encrypted to this SP (it
	// names this SP's certificate) and has to turn it down; what the rightful holder gets afterwards is what
	// it would have got anyway
	if o.EmbedCert != nil && t.Int(3, "c11.strangerfirst") == 1 {
		so := *o
		so.Rand = t.SubRand("c11.randstranger")
		if x, err := world.EncryptAssertion(&so, []byte("<a>not for you</a>")); err == nil {
			ea := &types.EncryptedAssertion{}
			if xml.Unmarshal([]byte(x), ea) == nil {
				other := 9 - spKey
				oc := world.MintCert(other, s.Epoch.Add(-24*time.Hour), s.Epoch.Add(24*time.Hour), 1)
				stranger := &tls.Certificate{Certificate: [][]byte{oc.DER}, PrivateKey: world.Key(other).RSA}
				var got []byte
				sout := world.Guard(func() error { var e error; got, e = ea.DecryptBytes(stranger); return e })
				r.Fault("holder_of_another_key_tried_first")
				if sout.Panic == "" && sout.OK() && len(got) > 0 {
					r.Fail("round-trip", "C11/decrypted-by-the-holder-of-another-key", obs("cell", cell))
					return
				}
			}
		}
	}

	// ---- part A: byte equality of DecryptBytes, called directly (types-level API)
	tc := &tls.Certificate{Certificate: [][]byte{spCert.DER}, PrivateKey: world.Key(spKey).RSA}
	var lengths []int
	if lenMode == 0 {
		for l := 0; l <= 33; l++ {
			lengths = append(lengths, l)
		}
		lengths = append(lengths, 1000, 4096)
	} else {
		lengths = []int{lenMode - 1}
	}
	fill := t.SubRand("c11.pt")
	var keptGot, keptWant []byte // an earlier result, held while later decryptions run
	for _, l := range lengths {
		for variant := 0; variant < 2; variant++ {
			pt := make([]byte, l)
			fill.Read(pt)
			for i := range pt {
				if pt[i] == 0 {
					pt[i] = 1
				}
			}
			if variant == 1 {
				if l == 0 {
					continue
				}
				// plaintext ending in zero bytes
				for i := l - 1; i >= 0 && i >= l-1-(l%3); i-- {
					pt[i] = 0
				}
				r.Probe("zero_tail")
			}
			if l%16 == 0 {
				r.Probe("len_mod16=0")
			}
			x, err := world.EncryptAssertion(o, pt)
			if err != nil {
				r.HarnessError("encrypt: %v", err)
				return
			}
			ea := &types.EncryptedAssertion{}
			if err := xml.Unmarshal([]byte(x), ea); err != nil {
				r.HarnessError("stub EncryptedAssertion does not unmarshal: %v", err)
				return
			}
			var got []byte
			out := world.Guard(func() error {
				var e error
				got, e = ea.DecryptBytes(tc)
				return e
			})
			r.Steps++
			if out.Panic != "" {
				continue // totality is C09's matter
			}
			if keptGot != nil && !bytes.Equal(keptGot, keptWant) {
				r.Fail("round-trip", fmt.Sprintf("C11/earlier-result-changed-by-a-later-call/%s", o.Sig()),
					obs("cell", cell, "length", len(keptWant), "data_alg", o.DataAlg))
				return
			}
			if out.OK() && len(got) > 0 && len(keptGot) == 0 {
				keptGot, keptWant = got, append([]byte(nil), pt...)
			}
			if !out.OK() || !bytes.Equal(got, pt) {
				r.Fail("round-trip", fmt.Sprintf("C11/decrypt-bytes-differs/%s", o.Sig()),
					obs("cell", cell, "length", l, "zero_tail", variant == 1, "err", fmt.Sprint(out.Err), "got_len", len(got), "data_alg", o.DataAlg, "key_alg", o.KeyAlg, "digest", o.Digest))
				return
			}
		}
	}
	r.Logf("part A ok lengths=%d", len(lengths))

	// ---- what the SP itself advertises in its metadata must round-trip too
	if md, err := s.Node.SP.Metadata(); err == nil && md.SPSSODescriptor != nil {
		for _, kd := range md.SPSSODescriptor.KeyDescriptors {
			if kd.Use != "encryption" {
				continue
			}
			for _, em := range kd.EncryptionMethods {
				r.Probe("advertised_method_exercised")
				if !(strings.Contains(em.Algorithm, "aes") || strings.Contains(em.Algorithm, "tripledes")) {
					r.HarnessError("the SP advertises %q, which the stub encryptor does not implement", em.Algorithm)
					return
				}
				ao := *o
				ao.DataAlg = em.Algorithm
				ao.Rand = t.SubRand("c11.randadv")
				pt := []byte("<a>advertised method round trip \x00\x00</a>")
				x, err := world.EncryptAssertion(&ao, pt)
				if err != nil {
					r.HarnessError("encrypt under advertised %s: %v", em.Algorithm, err)
					return
				}
				ea := &types.EncryptedAssertion{}
				if err := xml.Unmarshal([]byte(x), ea); err != nil {
					r.HarnessError("unmarshal: %v", err)
					return
				}
				var got []byte
				out := world.Guard(func() error {
					var e error
					got, e = ea.DecryptBytes(tc)
					return e
				})
				if out.Panic == "" && (!out.OK() || !bytes.Equal(got, pt)) {
					r.Fail("advertised", "C11/advertised-method-does-not-round-trip/"+em.Algorithm, obs("algorithm", em.Algorithm, "err", fmt.Sprint(out.Err), "cell", cell))
					return
				}
			}
		}
	}

	// ---- part B: encrypted Response vs plaintext twin through the configured SP
	r.Probe("twin")
	now := s.Node.Now()
	n := 1 + t.Int(3, "c11.n")
	place := t.Int(3, "c11.place")
	vary := t.Bool("c11.vary") // later assertions of the same Response use independently drawn envelopes
	m := world.GenResponse(t, s.IdP, s.Fed, now, n, true)
	s.ApplyPlacement(m, place, true)
	lay := world.DrawLayout(t)
	plainXML, err := s.IdP.Issue(m, lay, r.Sim.Now())
	if err != nil {
		r.HarnessError("issue twin: %v", err)
		return
	}
	for i, a := range m.Assertions {
		eo := *o
		eo.Rand = t.SubRand("c11.rand2")
		if vary && i > 0 {
			eo = *world.DrawEncOpts(t, o.Recipient, spCert.DER)
			if eo.Detached != o.Detached || eo.Digest != o.Digest || eo.KeyAlg != o.KeyAlg || (eo.EmbedCert == nil) != (o.EmbedCert == nil) {
				r.Probe("envelopes_differ_within_response")
			}
		}
		// (a plaintext that relies on the Response's namespace declarations instead of carrying its
		// own is not generated: after exclusive canonicalisation of a signed Response the root no
		// longer carries them, so the unchanged tree rejects that layout; see DESIGN.md 12)
		a.Encrypt = &eo
	}
	encXML, err := s.IdP.Issue(m, lay, r.Sim.Now())
	if err != nil {
		r.HarnessError("issue encrypted: %v", err)
		return
	}
	if strings.Contains(encXML, "<saml:EncryptedAssertion>") {
		r.Probe("encrypted_assertion_prefix_declared_on_root_only")
	}
	if restart {
		_, o0 := s.Node.ValidateResponse(world.Present(plainXML, false, 0))
		r.Logf("pre-restart delivery -> %s", o0.Class())
		if !s.Build() {
			return
		}
		r.Fault("sp_restart")
	}
	if rotate != 0 {
		// key configuration history on one live SP: it first decrypts under another key (K0), then the
		// application switches it to the key the IdP encrypts to
		k0 := 6
		c0 := world.MintCert(k0, s.Epoch.Add(-24*time.Hour), s.Epoch.Add(24*time.Hour), 4)
		cfg0 := *s.Cfg
		cfg0.EncKeyIdx, cfg0.EncCert = k0, c0
		switch rotate {
		case 1, 4:
			cfg0.EncStyle = world.KeySetter
		default:
			cfg0.EncStyle = world.KeyField
		}
		n0, err := world.NewSPNode(&cfg0, r.Sim.Time)
		if err != nil {
			r.HarnessError("build rotating sp: %v", err)
			return
		}
		// warm up under K0
		m0 := world.GenResponse(t, s.IdP, s.Fed, now, 1, false)
		m0.Sign = world.PlainSigOpts(s.IdPKey, s.IdPCert)
		m0.Assertions[0].Encrypt = &world.EncOpts{DataAlg: o.DataAlg, KeyAlg: o.KeyAlg, Digest: o.Digest, Recipient: &world.Key(k0).RSA.PublicKey, Rand: t.SubRand("c11.rand0")}
		x0, err := s.IdP.Issue(m0, lay, r.Sim.Now())
		if err != nil {
			r.HarnessError("issue warm-up: %v", err)
			return
		}
		_, w := n0.ValidateResponse(world.Present(x0, false, 0))
		r.Logf("rotation warm-up under the previous key -> %s", w.Class())
		// the switch
		spk := world.Key(spKey)
		switch rotate {
		case 1, 3:
			if err := n0.SP.SetSPKeyStore(&saml2.KeyStore{Signer: spk.Signer, Cert: spCert.DER}); err != nil {
				r.HarnessError("SetSPKeyStore: %v", err)
				return
			}
		case 2:
			n0.SP.SPKeyStore = &world.FieldKeyStore{Key: spk.RSA, Cert: spCert.DER}
		case 4:
			n0.SP.SetSPKeyStore(nil)
			n0.SP.SPKeyStore = &world.FieldKeyStore{Key: spk.RSA, Cert: spCert.DER}
		}
		s.Node = n0
		r.Fault("sp_key_rotation")
		r.Probe("key_rotation")
	}
	if t.Int(6, "c11.ambient") == 1 {
		s.NeighbourNoise(world.Present(plainXML, false, 0))
	}
	if t.Int(4, "c11.otherfirst") == 1 {
		// misrouted first: an SP of the same process that holds another key is offered the encrypted message
		// (and has to turn it down); the rightful recipient's answer afterwards is what it would have been
		cfg2 := *s.Node.Cfg
		cfg2.Live, cfg2.Name = false, "sp-holding-another-key"
		cfg2.EncKeyIdx = 9 - spKey
		cfg2.EncCert = world.MintCert(cfg2.EncKeyIdx, s.Epoch.Add(-24*time.Hour), s.Epoch.Add(24*time.Hour), 1)
		cfg2.EncStyle, cfg2.RejectedSetters = world.KeyField, 0
		if n2, err := world.NewSPNode(&cfg2, r.Sim.Time); err == nil {
			_, o2 := n2.ValidateResponse(world.Present(encXML, false, 6))
			r.Fault("payload_first_offered_to_an_sp_holding_another_key")
			if o2.Panic == "" && o2.OK() {
				r.Fail("twin", "C11/decrypted-by-an-sp-that-does-not-hold-the-key", obs("cell", cell))
				return
			}
		}
	}
	rp, op := s.Node.ValidateResponse(world.Present(plainXML, false, 0))
	re, oe := s.Node.ValidateResponse(world.Present(encXML, t.Bool("c11.compress"), 6))
	r.Steps += 2
	r.Logf("twin plain -> %s ; encrypted -> %s %s", op.Class(), oe.Class(), world.ErrClass(oe.Err))
	r.Shape(fmt.Sprintf("%s.r%v.l%d.%s.n%d.%s.%s", cell, restart, lenMode, placeNames[place], n, op.Class(), oe.Class()))
	r.Sample = obs("cell", cell, "restart", restart, "lengths", len(lengths), "place", placeNames[place], "n", n, "plain", op.Class(), "encrypted", oe.Class())
	if op.Panic != "" || oe.Panic != "" {
		return
	}
	ctx := obs("rotation", rotate, "cell", cell, "key_config", ks.String(), "restart", restart, "place", placeNames[place], "n", n, "plain_err", fmt.Sprint(op.Err), "encrypted_err", fmt.Sprint(oe.Err))
	if !op.OK() {
		r.Fail("twin", "C11/plain-twin-rejected", ctx)
		return
	}
	if !oe.OK() {
		r.Fail("twin", fmt.Sprintf("C11/twin-differs/encrypted-rejected/key=%s/rotation=%d", ks, rotate), ctx)
		return
	}
	if !world.EqualResponse(world.NormResponse(rp), world.NormResponse(re)) {
		ctx["plain"], ctx["encrypted"] = trunc(world.J(world.NormResponse(rp)), 800), trunc(world.J(world.NormResponse(re)), 800)
		r.Fail("twin", "C11/twin-differs/data/key="+ks.String(), ctx)
		return
	}
	if rp.SignatureValidated != re.SignatureValidated {
		r.Fail("twin", "C11/twin-differs/flags", ctx)
		return
	}
	for i := range rp.Assertions {
		if rp.Assertions[i].SignatureValidated != re.Assertions[i].SignatureValidated {
			r.Fail("twin", "C11/twin-differs/flags", ctx)
			return
		}
	}
	// Decrypt (unmarshalling variant) on the first encrypted assertion of the wire message. It hands the
	// plaintext to encoding/xml as it is, so look-alike attributes in a foreign namespace (layout extras)
	// are outside what this comparison can state.
	if len(re.Assertions) > 0 && !lay.Extras {
		var ea struct {
			EA []types.EncryptedAssertion `xml:"EncryptedAssertion"`
		}
		if err := xml.Unmarshal([]byte(encXML), &ea); err == nil && len(ea.EA) > 0 {
			var da *types.Assertion
			od := world.Guard(func() error {
				var e error
				da, e = ea.EA[0].Decrypt(tc)
				return e
			})
			if od.Panic == "" {
				if !od.OK() {
					ctx["err"] = fmt.Sprint(od.Err)
					r.Fail("round-trip", "C11/decrypt-unmarshal-failed", ctx)
				} else if !world.EqualAssertion(world.NormAssertion(da), world.ExpectAssertion(m.Assertions[0])) {
					r.Fail("round-trip", "C11/decrypt-unmarshal-differs", ctx)
				}
			}
		}
	}
}
