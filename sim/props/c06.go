package props

import (
	"fmt"
	"strings"
	"time"

	"verifsim/core"
	"verifsim/world"
)

// C06 — audience, one-time-use and proxy warnings mirror the signed conditions exactly.
// Two SPs are registered at the IdP; assertions carry 0-3 AudienceRestrictions with 0-3
// audiences each (this SP, the other SP, near misses), optionally OneTimeUse and
// ProxyRestriction; an assertion scoped to the other SP may be forwarded to this one.
// Fit is thin (DESIGN section 0): the simulator contributes workload, the reference model
// and invariance under benign transport perturbation.

func init() {
	register(&Prop{
		ID:    "C06",
		Level: "exploration",
		Rule: "seeded federation runs: first assertion with 0-3 AudienceRestrictions x 0-3 audiences drawn from {this SP, other SP, case / trailing-slash / whitespace near misses, empty}, configured audience URI from {SP URI, empty, other}, " +
			"OneTimeUse and ProxyRestriction (Count, 0-3 audiences) present/absent, later assertions with unrelated conditions; transport perturbations (duplicate, recompress, delay inside window) must not change the warnings; " +
			"oracle: reference model of NotInAudience / OneTimeUse / ProxyRestriction; distinct = shape hash (restriction pattern, configured URI kind, OTU, proxy, n, placement, perturbation, outcome)",
		Directed:    c06Directed,
		Run:         c06Run,
		MustHit:     []string{"restrictions=0", "restrictions>=2", "empty_restriction", "near_miss", "match_then_miss", "miss_then_match", "otu", "proxy", "configured_empty", "forwarded_other_sp", "duplicate", "recompress", "clock_before_not_before", "clock_after_conditions_end", "long_audience_list", "proxy_count_beyond_64_bits", "proxy_count_namesake_attribute"},
		RandomRuns:  map[string]int{"quick": 8000, "thorough": 80000},
		Assumptions: []string{"comparison of audience values is byte-exact, as the property states"},
	})
}

// audience value kinds
var c06AudKinds = []string{"self", "other", "case", "slash", "space", "empty"}

func c06Aud(kind string, self string) string {
	switch kind {
	case "self":
		return self
	case "other":
		return "https://other-sp.example/meta"
	case "case":
		return strings.ToUpper(self[:8]) + self[8:]
	case "slash":
		return self + "/"
	case "space":
		return " " + self + " "
	}
	if strings.HasPrefix(kind, "filler") {
		return "https://" + kind + ".example/meta"
	}
	return ""
}

// draw order: cfgKind, nRestr, then per restriction: nAud, kinds...; directed prefix forces cfgKind, nRestr, and the pattern seed
func c06Directed(tier string) [][]uint64 {
	var out [][]uint64
	// restriction patterns as digit strings: each restriction = count + kinds
	pats := [][]uint64{
		{0},                   // none
		{1, 1, 0},             // [self]
		{1, 1, 1},             // [other]
		{1, 0},                // [] empty restriction
		{2, 1, 0, 1, 1},       // [self][other]  match then miss
		{2, 1, 1, 1, 0},       // [other][self]  miss then match
		{2, 2, 1, 0, 1, 0},    // [other,self][self]
		{1, 3, 1, 2, 3},       // [other,case,slash]
		{1, 2, 4, 0},          // [space,self]
		{3, 1, 0, 1, 0, 1, 5}, // [self][self][empty]
		{2, 1, 0, 0},          // [self][]
		{1, 1, 5},             // [empty]
	}
	for cfg := uint64(0); cfg < 3; cfg++ {
		for _, p := range pats {
			for extra := uint64(0); extra < 4; extra++ {
				f := append([]uint64{cfg}, p...)
				out = append(out, append(f, extra)) // extra: bit0 OTU, bit1 proxy (consumed by the next two draws as one value each)
			}
		}
	}
	return out
}

func c06Run(r *core.Run) {
	t := r.Tape
	cfgKind := t.Int(3, "c06.cfg") // 0 SP URI, 1 empty, 2 other
	nR := t.Int(4, "c06.nrestr")
	var restr [][]string
	var kindsDesc []string
	for i := 0; i < nR; i++ {
		na := t.Int(4, "c06.naud")
		var auds []string
		var ks []string
		for j := 0; j < na; j++ {
			k := c06AudKinds[t.Int(len(c06AudKinds), "c06.audkind")]
			ks = append(ks, k)
			auds = append(auds, k)
		}
		restr = append(restr, auds)
		kindsDesc = append(kindsDesc, "["+strings.Join(ks, ",")+"]")
	}
	extra := t.Int(4, "c06.extra")
	otu := extra&1 != 0
	proxy := extra&2 != 0
	if ll := t.Int(12, "c06.longlist"); ll >= 1 && ll <= 2 && len(restr) > 0 {
		// a long list of other SPs in front of the drawn audiences of the first / last restriction
		// (federation-wide assertions)
		nfill := 30 + t.Int(70, "c06.longlist.n")
		fill := make([]string, nfill)
		for k := range fill {
			fill[k] = fmt.Sprintf("filler%d", k)
		}
		i := 0
		if ll == 2 {
			i = len(restr) - 1
		}
		restr[i] = append(fill, restr[i]...)
		kindsDesc[i] = fmt.Sprintf("[%d-fillers,%s", nfill, kindsDesc[i][1:])
		r.Probe("long_audience_list")
	}

	s := NewStd(r)
	s.DrawLive()
	s.DrawClockKnobs()
	switch cfgKind {
	case 1:
		s.Cfg.Audience = ""
		r.Probe("configured_empty")
	case 2:
		s.Cfg.Audience = "https://third.example/meta"
	}
	place := t.Int(4, "c06.place")
	s.Cfg.SkipSig = place == PlaceNone
	s.Cfg.AllowMissing = t.Bool("c06.allowmissing")
	if !s.Build() {
		return
	}
	now := s.Node.Now()
	n := 1 + t.Int(2, "c06.n")
	m := world.GenResponse(t, s.IdP, s.Fed, now, n, false)
	a0 := m.Assertions[0]
	a0.AudienceRestrictions = nil
	self := s.Fed.Audience
	for _, ks := range restr {
		auds := []string{}
		for _, k := range ks {
			auds = append(auds, c06Aud(k, self))
			if k != "self" && k != "other" {
				r.Probe("near_miss")
			}
			if k == "other" {
				r.Probe("forwarded_other_sp")
			}
		}
		a0.AudienceRestrictions = append(a0.AudienceRestrictions, auds)
		if len(auds) == 0 {
			r.Probe("empty_restriction")
		}
	}
	if nR == 0 {
		r.Probe("restrictions=0")
	}
	if nR >= 2 {
		r.Probe("restrictions>=2")
	}
	// the clock may sit outside the Conditions window (bearer confirmation still valid):
	// the other warnings must not depend on it
	timeMode := t.Int(3, "c06.timemode")
	switch timeMode {
	case 1:
		a0.NotBefore = strp(world.RenderInstant(now.Add(time.Duration(1+t.Int(500, "c06.nbfuture"))*time.Second).Truncate(time.Second), world.InstantForm{}))
		r.Fault("clock_before_not_before")
	case 2:
		a0.NotOnOrAfter = strp(world.RenderInstant(now.Add(-time.Duration(t.Int(500, "c06.cnooapast"))*time.Second).Truncate(time.Second), world.InstantForm{}))
		r.Fault("clock_after_conditions_end")
	}
	a0.OneTimeUse = otu
	if otu {
		r.Probe("otu")
	}
	countUnrepresentable := false
	namesake := false
	if proxy {
		p := &world.LProxy{}
		switch ci := t.Int(10, "c06.proxy.count"); ci {
		case 5:
			p.Count, p.CountLit = 9223372036854775807, "9223372036854775807"
		case 6:
			p.Count, p.CountLit = 3, "00000000000000000000003"
		case 7, 8, 9:
			// xs:nonNegativeInteger has no upper bound; such a Count need not be accepted, but it cannot be
			// reported as anything else
			p.CountLit = []string{"9223372036854775808", "18446744073709551615", "18446744073709551616"}[ci-7]
			countUnrepresentable = true
			r.Probe("proxy_count_beyond_64_bits")
		default:
			p.Count = []int{0, 1, 2, 5, 1000000}[ci]
		}
		np := t.Int(4, "c06.proxy.naud")
		for j := 0; j < np; j++ {
			p.Audiences = append(p.Audiences, world.DrawValue(t, "c06.proxy.aud"))
		}
		a0.Proxy = p
		r.Probe("proxy")
		if t.Int(5, "c06.proxy.namesake") == 1 {
			// an XML Schema instance attribute spelled like the SAML one: it is not the Count
			a0.ExtraAttrs = map[string][][2]string{"ProxyRestriction": {{"xsi:Count", "7"}}}
			namesake = true
			r.Probe("proxy_count_namesake_attribute")
		}
	}
	if n > 1 {
		// the second assertion's conditions must not matter
		a1 := m.Assertions[1]
		a1.AudienceRestrictions = [][]string{{"https://other-sp.example/meta"}}
		a1.OneTimeUse = !otu
		if !proxy {
			a1.Proxy = &world.LProxy{Count: 7, Audiences: []string{"x"}}
		}
	}
	s.ApplyPlacement(m, place, t.Chance(800, "c06.plainsig"))
	lay := world.DrawLayout(t)
	if namesake {
		lay.Extras = false // (one foreign namespace per message: see C05)
	}
	xml, err := s.IdP.Issue(m, lay, r.Sim.Now())
	if err != nil {
		r.HarnessError("issue: %v", err)
		return
	}
	// reference model
	wantNIA := false
	matchedBefore, missedBefore := false, false
	for _, auds := range a0.AudienceRestrictions {
		matched := false
		for _, a := range auds {
			if a == s.Cfg.Audience {
				matched = true
			}
		}
		if !matched {
			wantNIA = true
			if matchedBefore {
				r.Probe("match_then_miss")
			}
			missedBefore = true
		} else {
			if missedBefore {
				r.Probe("miss_then_match")
			}
			matchedBefore = true
		}
	}
	r.Logf("idp issue restrictions=%s cfg=%d otu=%v proxy=%v n=%d place=%s layout=%s", strings.Join(kindsDesc, ""), cfgKind, otu, proxy, n, placeNames[place], lay.Sig())

	perturb := t.Int(4, "c06.perturb") // 0 none 1 duplicate 2 recompress 3 delay
	deliveries := []string{world.Present(xml, false, 0)}
	switch perturb {
	case 1:
		deliveries = append(deliveries, deliveries[0])
		r.Fault("duplicate")
	case 2:
		deliveries = append(deliveries, world.Present(xml, true, []int{1, 6, 9}[t.Int(3, "c06.level")]))
		r.Fault("recompress")
	case 3:
		deliveries = append(deliveries, deliveries[0])
		r.Fault("delay")
	}
	switch t.Int(6, "c06.ambient") {
	case 1:
		s.NeighbourNoise(deliveries[0])
	case 2:
		s.WarmUpThenReconfigure(deliveries[0])
	case 3:
		OtherAPICalls(r, s.Node.SP, 7)
	}
	for di, enc := range deliveries {
		if di == 1 && perturb == 3 {
			r.Sim.Advance(time.Duration(1+t.Int(40, "c06.delay")) * time.Second)
		}
		ai, out := s.Node.Retrieve(enc)
		r.Steps++
		r.Logf("sp retrieve #%d -> %s %s", di, out.Class(), world.ErrClass(out.Err))
		if di == 0 {
			r.Shape(fmt.Sprintf("%s.tm%d.cfg%d.otu%v.px%v.n%d.%s.p%d.%s", strings.Join(kindsDesc, ""), timeMode, cfgKind, otu, proxy, n, placeNames[place], perturb, out.Class()))
			r.Sample = obs("restrictions", strings.Join(kindsDesc, ""), "configured", s.Cfg.Audience, "otu", otu, "proxy", proxy, "n", n, "place", placeNames[place], "perturb", perturb, "outcome", out.Class())
		}
		if out.Panic != "" {
			return
		}
		ctx := obs("time_mode", timeMode, "restrictions", a0.AudienceRestrictions, "configured", s.Cfg.Audience, "otu", otu, "proxy", world.J(a0.Proxy), "delivery", di, "perturb", perturb)
		if countUnrepresentable {
			if out.OK() {
				ctx["got"] = world.J(ai.WarningInfo)
				r.Fail("proxy", "C06/proxy/unrepresentable-count-reported-as-something-else", ctx)
			}
			return
		}
		if !out.OK() {
			ctx["err"] = fmt.Sprint(out.Err)
			r.Fail("accept", "C06/genuine-rejected/"+world.ErrClass(out.Err), ctx)
			return
		}
		w := ai.WarningInfo
		if w == nil {
			r.Fail("warnings", "C06/no-warning-info", ctx)
			return
		}
		if w.NotInAudience != wantNIA {
			ctx["got"], ctx["want"] = w.NotInAudience, wantNIA
			r.Fail("audience", fmt.Sprintf("C06/not-in-audience/got=%v", w.NotInAudience), ctx)
			return
		}
		if w.OneTimeUse != otu {
			ctx["got"], ctx["want"] = w.OneTimeUse, otu
			r.Fail("one-time-use", fmt.Sprintf("C06/one-time-use/got=%v", w.OneTimeUse), ctx)
			return
		}
		if (w.ProxyRestriction != nil) != proxy {
			ctx["got"] = world.J(w.ProxyRestriction)
			r.Fail("proxy", fmt.Sprintf("C06/proxy/presence/got=%v", w.ProxyRestriction != nil), ctx)
			return
		}
		if proxy {
			g := w.ProxyRestriction
			same := g.Count == a0.Proxy.Count && len(g.Audience) == len(a0.Proxy.Audiences)
			if same {
				for i := range g.Audience {
					if g.Audience[i] != a0.Proxy.Audiences[i] {
						same = false
					}
				}
			}
			if !same {
				ctx["got"] = world.J(g)
				r.Fail("proxy", "C06/proxy/content", ctx)
				return
			}
		}
		nbT, _ := time.Parse(time.RFC3339, *a0.NotBefore)
		naT, _ := time.Parse(time.RFC3339, *a0.NotOnOrAfter)
		dnow := s.Node.Now()
		if wantInv := dnow.Before(nbT) || !dnow.Before(naT); w.InvalidTime != wantInv {
			r.Fail("time", fmt.Sprintf("C06/invalid-time/got=%v/mode=%d", w.InvalidTime, timeMode), ctx)
			return
		}
	}
}
