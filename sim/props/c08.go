package props

import (
	"fmt"
	"strings"
	"time"

	saml2 "github.com/russellhaering/gosaml2"

	"verifsim/core"
	"verifsim/world"
)

// C08 — genuine IdP responses are accepted and reproduced faithfully in every layout.
// Liveness half of the federation: in fault-free phases (and once faults stop) every
// response a conforming IdP issues for this SP, delivered inside its windows, is
// accepted, and Response / AssertionInfo equal the IdP's logical message.

func init() {
	register(&Prop{
		ID:    "C08",
		Level: "exploration",
		Rule: "seeded federation runs: conforming IdP issues 1-3 assertions with hostile-pool values, drawn layout (prefix style, pretty, quotes, comments, CDATA, char refs, attribute order), " +
			"drawn signature placement/algorithms/canonicalisers/KeyInfo, optional encryption and DEFLATE, optional earlier faults (garbage delivery, SP restart, key roll-over); " +
			"delivery inside all windows; oracle: accepted and Response/AssertionInfo equal the logical message; distinct = shape hash (layout x signature style x placement x n x encryption x presentation x pre-faults)",
		Directed:   c08Directed,
		Run:        c08Run,
		MustHit:    []string{"place=R", "place=A", "place=RA", "encrypted", "compressed", "layout_comments", "layout_cdata", "layout_charrefs", "n>=2", "inclusive_c14n", "sp_restart", "idp_key_rollover", "later_assertion_leaner_than_the_first", "stored_block_with_text_header"},
		RandomRuns: map[string]int{"quick": 6000, "thorough": 80000},
		Assumptions: []string{
			"only layouts for which the stub's own goxmldsig self-check passes are sent (canonicalisation the validator supports); a failing self-check on a calibrated layout is a harness error",
			"one Subject / AttributeStatement / AuthnStatement per assertion; documents < 800 elements",
			"signed assertions that travel encrypted use exclusive canonicalisation (they are verified inside the Response tree after decryption)",
		},
	})
}

// draw order: place, n, encMode, layout(pstyle, flags, selfclose, seed), compress, prefault
func c08Directed(tier string) [][]uint64 {
	var out [][]uint64
	for place := uint64(0); place < 3; place++ {
		for n := uint64(0); n < 3; n++ {
			for enc := uint64(0); enc < 3; enc++ {
				for ps := uint64(0); ps < 4; ps++ {
					for _, fl := range []uint64{0, 127, 8 | 16 | 32, 1 | 2 | 64} {
						if tier == "quick" && (place+n+enc+ps+fl)%3 != 0 {
							continue
						}
						out = append(out, []uint64{place, n, enc, ps, fl, (ps + fl) % 2, place*1000 + n*100 + fl, (place + n + ps) % 2, (n + enc + ps) % 4})
					}
				}
			}
		}
	}
	return out
}

func c08Run(r *core.Run) {
	t := r.Tape
	place := t.Int(3, "c08.place")
	n := 1 + t.Int(3, "c08.n")
	encMode := t.Int(3, "c08.enc") // 0 none, 1 all encrypted, 2 first encrypted only
	lay := world.DrawLayout(t)
	compress := t.Bool("c08.compress")
	prefault := t.Int(4, "c08.prefault") // 0 none 1 garbage delivery 2 sp_restart 3 key roll-over

	s := NewStd(r)
	s.DrawLive()
	s.DrawClockKnobs()
	s.Cfg.AllowMissing = t.Bool("c08.allowmissing")
	if t.Chance(200, "c08.noissuercfg") {
		s.Cfg.IdPIssuer = ""
	}
	if t.Chance(300, "c08.maxbody") {
		s.Cfg.MaxBody = 1 << 20
	}
	spKey := 4 + t.Int(3, "c08.spkey")
	spCert := world.MintCert(spKey, s.Epoch.Add(-365*24*time.Hour), s.Epoch.Add(365*24*time.Hour), 1)
	if encMode != 0 {
		s.Cfg.EncStyle = []world.KeyStyle{world.KeyField, world.KeyTLS, world.KeyBoth}[t.Int(3, "c08.encstyle")]
		s.Cfg.EncKeyIdx, s.Cfg.EncCert = spKey, spCert
		s.Cfg.ValidateEncCert = t.Bool("c08.validateenc")
	}
	signKey, signCert := s.IdPKey, s.IdPCert
	if prefault == 3 {
		// roll-over: the store holds the old and the new certificate; the IdP signs with either
		newKey := (s.IdPKey + 1) % 4
		newCert := world.MintCert(newKey, s.Epoch.Add(-24*time.Hour), s.Epoch.Add(10*365*24*time.Hour), int64(t.Int(2, "c08.rollserial")))
		s.Cfg.Store.Certs = append(s.Cfg.Store.Certs, newCert)
		if t.Bool("c08.signnew") {
			signKey, signCert = newKey, newCert
		}
		r.Fault("idp_key_rollover")
	}
	if !s.Build() {
		return
	}
	now := s.Node.Now()
	m := world.GenResponse(t, s.IdP, s.Fed, now, n, true)
	if t.Int(12, "c08.big") == 1 {
		// several hundred elements (still below the validator's traversal budget of 1000 per pass)
		a0 := m.Assertions[0]
		a0.HasAttrStmt = true
		na := 120 + t.Int(140, "c08.big.n")
		a0.Attrs = nil
		for i := 0; i < na; i++ {
			a0.Attrs = append(a0.Attrs, world.LAttr{Name: fmt.Sprintf("big%d", i), Values: []string{"v1", "v2"}})
		}
		m.Assertions = m.Assertions[:1]
		n = 1
		r.Probe("large_document")
	}
	noAttrStmt := t.Chance(100, "c08.noattrstmt")
	if noAttrStmt {
		m.Assertions[0].HasAttrStmt, m.Assertions[0].Attrs = false, nil
	}
	// later assertions may be leaner than the first (an authentication-only or attribute-only assertion):
	// no AttributeStatement, no Conditions, no AuthnStatement - the summary is taken from the first one
	if lean := t.Int(6, "c08.lean"); lean >= 1 && lean <= 3 && len(m.Assertions) > 1 {
		for _, x := range m.Assertions[1:] {
			if lean&1 != 0 {
				x.HasAttrStmt, x.Attrs = false, nil
			}
			if lean&2 != 0 {
				x.HasConditions, x.NotBefore, x.NotOnOrAfter, x.AudienceRestrictions, x.OneTimeUse, x.Proxy = false, nil, nil, nil, false, nil
			}
		}
		r.Probe("later_assertion_leaner_than_the_first")
	}
	mk := func() *world.SigOpts {
		o := world.DrawSigOpts(t, signKey, signCert)
		if len(s.Cfg.Store.Certs) == 1 && t.Chance(150, "c08.nokeyinfo") {
			o.KeyInfo = false
		}
		return o
	}
	if place == PlaceResponse || place == PlaceBoth {
		m.Sign = mk()
	}
	for i, a := range m.Assertions {
		if place == PlaceAssertions || place == PlaceBoth {
			a.Sign = mk()
			a.Sign.EmptyURI = false
		}
		if encMode == 1 || (encMode == 2 && i == 0) {
			a.Encrypt = world.DrawEncOpts(t, &world.Key(spKey).RSA.PublicKey, spCert.DER)
			if a.Sign != nil {
				a.Sign.ExclusiveOnly()
			}
		}
	}
	xml, err := s.IdP.Issue(m, lay, r.Sim.Now())
	if err != nil {
		r.HarnessError("issue: %v", err)
		return
	}
	r.Probe("place=" + placeNames[place])
	if encMode != 0 {
		r.Probe("encrypted")
	}
	if compress {
		r.Probe("compressed")
	}
	if lay.Comments {
		r.Probe("layout_comments")
	}
	if lay.CDATA {
		r.Probe("layout_cdata")
	}
	if lay.CharRefs {
		r.Probe("layout_charrefs")
	}
	if n >= 2 {
		r.Probe("n>=2")
	}
	sigsig := ""
	for _, o := range []*world.SigOpts{m.Sign, m.Assertions[0].Sign} {
		if o != nil {
			sigsig += o.Sig()
			if o.Transform != world.C14NAlgs[0] && o.Transform != world.C14NAlgs[1] {
				r.Probe("inclusive_c14n")
			}
		}
	}
	r.Logf("idp issue n=%d place=%s enc=%d layout=%s sig=%s", n, placeNames[place], encMode, lay.Sig(), sigsig)

	// the stub checks its own output with goxmldsig directly: a layout the dependency
	// cannot verify is outside "what the validator supports"
	if m.Sign != nil {
		if err := world.SelfCheck(xml, m.ID, signCert, s.Node.Clock.Dsig()); err != nil {
			r.HarnessError("stub self-check failed for response signature (%s, %s): %v", lay.Sig(), m.Sign.Sig(), err)
			return
		}
	}
	for _, a := range m.Assertions {
		if a.Sign != nil && a.Encrypt == nil {
			if err := world.SelfCheck(xml, a.ID, signCert, s.Node.Clock.Dsig()); err != nil {
				r.HarnessError("stub self-check failed for assertion signature (%s, %s): %v", lay.Sig(), a.Sign.Sig(), err)
				return
			}
		}
	}

	// earlier faults; the measured phase starts once they stop
	switch prefault {
	case 1:
		g := world.Present(xml[:len(xml)/2], false, 0)
		_, o := s.Node.ValidateResponse(g)
		r.Fault("garbage_delivery")
		r.Logf("pre-fault garbage delivery -> %s", o.Class())
	case 2:
		_, o := s.Node.Retrieve(world.Present(xml, false, 0))
		r.Logf("pre-restart delivery -> %s", o.Class())
		if !s.Build() {
			return
		}
		r.Fault("sp_restart")
	}
	// transport: delay inside every window
	r.Sim.Advance(time.Duration(t.Int(50, "c08.delay")) * time.Second)
	level := []int{6, 1, 9, 0, 100}[t.Int(5, "c08.level")]
	enc := ""
	if level != 100 {
		enc = world.Present(xml, compress, level)
	} else if !compress {
		enc = world.Present(xml, false, 0)
	}
	if compress && level == 100 && len(xml) > 0x7e3d {
		enc = world.Present(xml, true, 0)
	} else if compress && level == 100 {
		// a compressor that only frames: one stored block whose header octets happen to be characters (for
		// that the message is padded with white space behind the root to a length whose two octets are text).
		// Read as a raw document the stream is "text, then the message": the SP has to inflate it all the same.
		total := 0x4020
		for total < 0x7e40 && (total < len(xml) || !world.TextCleanBlockLen(total)) {
			total++
		}
		if total >= 0x7e40 {
			total = 0 // longer than any block length whose octets are text: ordinary framing
		}
		padded := xml + strings.Repeat("\n", total-len(xml))
		comp := world.StoredDeflate([]byte(padded), []int{total}, func(int) byte { return '!' }, false)
		if inf, err := world.Inflate(comp); err != nil || string(inf) != padded || comp[0] != '!' {
			r.HarnessError("hand-made DEFLATE stream does not inflate to the message: %v", err)
			return
		}
		enc = world.B64(comp)
		r.Probe("stored_block_with_text_header")
	}

	switch t.Int(6, "c08.ambient") {
	case 1:
		s.NeighbourNoise(enc)
	case 2:
		s.WarmUpThenReconfigure(enc)
	case 3:
		OtherAPICalls(r, s.Node.SP, 7)
	}
	resp, out := s.Node.ValidateResponse(enc)
	r.Steps++
	r.Logf("sp validate -> %s %s", out.Class(), world.ErrClass(out.Err))
	ai, out2 := s.Node.Retrieve(enc)
	r.Steps++
	r.Logf("sp retrieve -> %s %s", out2.Class(), world.ErrClass(out2.Err))
	r.Shape(fmt.Sprintf("%s.n%d.e%d.%s.%s.c%v.pf%d.%s.%s", placeNames[place], n, encMode, lay.Sig(), sigsig, compress, prefault, out.Class(), out2.Class()))
	r.Sample = obs("place", placeNames[place], "n", n, "encrypted", encMode, "layout", lay.Sig(), "sig", sigsig, "compress", compress, "prefault", prefault,
		"validate", out.Class(), "retrieve", out2.Class(), "xml_head", trunc(xml, 300))
	if out.Panic != "" || out2.Panic != "" {
		return
	}
	ctx := obs("layout", lay.Sig(), "sig", sigsig, "place", placeNames[place], "n", n, "enc", encMode, "compress", compress)
	if !out.OK() {
		ctx["err"] = fmt.Sprint(out.Err)
		ctx["xml"] = trunc(xml, 1500)
		r.Fail("accept", "C08/genuine-rejected/validate/"+world.ErrClass(out.Err), ctx)
		return
	}
	want := world.ExpectResponse(m)
	got := world.NormResponse(resp)
	if !world.EqualResponse(got, want) {
		ctx["got"], ctx["want"] = world.J(got), world.J(want)
		r.Fail("faithful", "C08/response-differs/"+diffField(got, want), ctx)
		return
	}
	// RetrieveAssertionInfo
	if noAttrStmt && !s.Cfg.AllowMissing {
		if out2.OK() {
			r.Fail("accept", "C08/missing-attribute-statement-accepted", ctx)
		}
		return
	}
	if !out2.OK() {
		ctx["err"] = fmt.Sprint(out2.Err)
		r.Fail("accept", "C08/genuine-rejected/retrieve/"+world.ErrClass(out2.Err), ctx)
		return
	}
	a0 := m.Assertions[0]
	fail := func(what string, g, w any) {
		ctx["got"], ctx["want"] = g, w
		r.Fail("faithful", "C08/info-differs/"+what, ctx)
	}
	if ai.NameID != *a0.NameID {
		fail("NameID", ai.NameID, *a0.NameID)
		return
	}
	if len(ai.Assertions) != len(m.Assertions) {
		fail("Assertions.len", len(ai.Assertions), len(m.Assertions))
		return
	}
	for i := range ai.Assertions {
		if !world.EqualAssertion(world.NormAssertion(&ai.Assertions[i]), want.Assertions[i]) {
			fail("Assertions", world.J(world.NormAssertion(&ai.Assertions[i])), world.J(want.Assertions[i]))
			return
		}
	}
	wantN := 0
	for _, at := range a0.Attrs {
		wantN++
		v, ok := ai.Values[at.Name]
		if !ok {
			fail("Values.missing", at.Name, "")
			return
		}
		if v.FriendlyName != at.FriendlyName || v.NameFormat != at.NameFormat || v.Name != at.Name {
			fail("Values.meta", world.J(v), world.J(at))
			return
		}
		if ai.Values.GetSize(at.Name) != len(at.Values) {
			fail("Values.GetSize", ai.Values.GetSize(at.Name), len(at.Values))
			return
		}
		all := ai.Values.GetAll(at.Name)
		if len(all) != len(at.Values) {
			fail("Values.GetAll.len", len(all), len(at.Values))
			return
		}
		for j := range all {
			if all[j] != at.Values[j] {
				fail("Values.GetAll", all[j], at.Values[j])
				return
			}
		}
		first := ""
		if len(at.Values) > 0 {
			first = at.Values[0]
		}
		if ai.Values.Get(at.Name) != first {
			fail("Values.Get", ai.Values.Get(at.Name), first)
			return
		}
	}
	if len(ai.Values) != wantN {
		fail("Values.len", len(ai.Values), wantN)
		return
	}
	absent := "no-such-attribute\x7f"
	var nilVals saml2.Values
	if ai.Values.Get(absent) != "" || ai.Values.GetSize(absent) != 0 || len(ai.Values.GetAll(absent)) != 0 ||
		nilVals.Get("x") != "" || nilVals.GetSize("x") != 0 || len(nilVals.GetAll("x")) != 0 {
		fail("Values.absent", "non-empty", "empty")
		return
	}
	if a0.Authn != nil {
		if ai.SessionIndex != a0.Authn.SessionIndex {
			fail("SessionIndex", ai.SessionIndex, a0.Authn.SessionIndex)
			return
		}
		chk := func(name string, g *time.Time, w *string) bool {
			if (g == nil) != (w == nil) {
				fail(name, fmt.Sprint(g), fmt.Sprint(w))
				return false
			}
			if g != nil {
				wt, _ := time.Parse(time.RFC3339, *w)
				if !g.Equal(wt) {
					fail(name, g.String(), *w)
					return false
				}
			}
			return true
		}
		if !chk("AuthnInstant", ai.AuthnInstant, a0.Authn.AuthnInstant) || !chk("SessionNotOnOrAfter", ai.SessionNotOnOrAfter, a0.Authn.SessionNotOnOrAfter) {
			return
		}
	} else if ai.SessionIndex != "" || ai.AuthnInstant != nil || ai.SessionNotOnOrAfter != nil {
		fail("authn-absent", ai.SessionIndex, "")
	}
}

// diffField names the first differing top-level part (for stable signatures).
func diffField(g, w world.NResponse) string {
	switch {
	case g.ID != w.ID:
		return "ID"
	case g.InResponseTo != w.InResponseTo:
		return "InResponseTo"
	case g.Destination != w.Destination:
		return "Destination"
	case g.Version != w.Version:
		return "Version"
	case g.IssueInstant != w.IssueInstant:
		return "IssueInstant"
	case world.J(g.Issuer) != world.J(w.Issuer):
		return "Issuer"
	case world.J(g.StatusCode) != world.J(w.StatusCode):
		return "Status"
	case len(g.Assertions) != len(w.Assertions):
		return "Assertions.len"
	}
	for i := range g.Assertions {
		if !world.EqualAssertion(g.Assertions[i], w.Assertions[i]) {
			return "Assertion." + diffAssertion(g.Assertions[i], w.Assertions[i])
		}
	}
	return "other"
}

func diffAssertion(g, w world.NAssertion) string {
	switch {
	case g.ID != w.ID:
		return "ID"
	case g.Version != w.Version:
		return "Version"
	case g.IssueInstant != w.IssueInstant:
		return "IssueInstant"
	case world.J(g.Issuer) != world.J(w.Issuer):
		return "Issuer"
	case world.J(g.Subject) != world.J(w.Subject):
		if g.Subject != nil && w.Subject != nil && world.J(g.Subject.NameID) != world.J(w.Subject.NameID) {
			return "NameID"
		}
		return "Subject"
	case world.J(g.Conditions) != world.J(w.Conditions):
		return "Conditions"
	case world.J(g.Authn) != world.J(w.Authn):
		return "AuthnStatement"
	}
	return "Attributes"
}
