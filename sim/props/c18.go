//go:build conc

package props

import (
	"bytes"
	crand "crypto/rand"
	"fmt"
	"regexp"
	"strings"
	"sync"
	"time"

	"github.com/beevik/etree"
	saml2 "github.com/russellhaering/gosaml2"
	"github.com/russellhaering/gosaml2/uuid"

	"verifsim/core"
	"verifsim/world"
)

// C18 — message identifiers are unique, unpredictable and valid XML IDs.
// Entropy seam: crypto/rand.Reader is replaced by the accounting per-task reader, so the
// simulator knows every byte the library was served. Refinement oracle: every ID is "_" +
// canonical lower-case 8-4-4-4-12 rendering of 16 bytes that appear as one contiguous
// window in the bytes served (version nibble 4 and variant bits 10 forced, the other 122
// bits untouched), and no two IDs use overlapping windows (conservation of entropy).

var idRe = regexp.MustCompile(`^_[0-9a-f]{8}-[0-9a-f]{4}-4[0-9a-f]{3}-[89ab][0-9a-f]{3}-[0-9a-f]{12}$`)
var idAttrRe = regexp.MustCompile(`\bID="([^"]*)"`)

var c18Modes = []string{"scheduled-builders", "sequential-history", "masked-bytes-enumeration", "short-reads", "real-entropy", "stalled-entropy"}
var c18Builders = []string{"BuildAuthRequest", "BuildAuthRequestDocumentNoSig", "BuildLogoutRequestDocument", "BuildLogoutRequestDocumentNoSig", "BuildLogoutResponseDocument", "BuildLogoutResponseDocumentNoSig", "BuildAuthBodyPost", "BuildAuthURL", "uuid.NewV4"}

func init() {
	register(&Prop{
		ID:     "C18",
		Engine: "conc",
		Level:  "fault_enumeration",
		Rule: "entropy seam + seeded schedules: (a) 2-6 tasks x 1-6 message constructions of every kind on shared and separate SP instances under the seeded scheduler, (b) sequential histories of 20-200 constructions, (c) enumeration of all 65,536 values of the two masked entropy bytes, (d) short reads of 1-3 bytes per Read, (e) real OS entropy: 10^5 (quick) / 10^6 (thorough) IDs across kinds, instances and goroutines pairwise distinct; " +
			"oracle: ID is a legal xs:ID in canonical v4 form, equals the rendering of a contiguous 16-byte window of the bytes served with only version/variant bits forced, windows of different IDs do not overlap, nothing is drawn from elsewhere; distinct = shape hash (mode, builders, interleaving signature)",
		Directed:   c18Directed,
		Run:        c18Run,
		MustHit:    []string{"mode=scheduled-builders", "mode=sequential-history", "mode=masked-bytes-enumeration", "mode=short-reads", "mode=real-entropy", "preemption", "kind=AuthnRequest", "kind=LogoutRequest", "kind=LogoutResponse", "two_instances", "enumerated_block_rendered", "documents_kept_then_serialised", "mode=stalled-entropy", "sp_copied_by_value_after_use", "signer_fails_one_call"},
		RandomRuns: map[string]int{"quick": 400, "thorough": 10000},
		Assumptions: []string{"unpredictability is shown as provenance only: every free bit comes unchanged from crypto/rand.Reader; the quality of the OS generator is assumed",
			"entropy errors are not injected (since Go 1.24 a failing crypto/rand.Reader is fatal by design); only short reads are a legal fault on that seam",
			"the real-entropy phase is not replayable by nature (a duplicate has probability about 2^-82)"},
		Stub: []string{"entropy source (accounting per-task streams installed as crypto/rand.Reader)", "goroutine scheduler", "clock"},
	})
}

// draw order: mode, p1, p2
func c18Directed(tier string) [][]uint64 {
	var out [][]uint64
	for i := uint64(0); i < 24; i++ {
		out = append(out, []uint64{0, i % 5, i})
	}
	for i := uint64(0); i < 6; i++ {
		out = append(out, []uint64{1, i, i})
	}
	out = append(out, []uint64{1, 1, 3}, []uint64{1, 4, 5}) // with the SPs copied by value half-way
	// the entropy source stalls for a few (real) seconds
	nStall := uint64(1)
	if tier != "quick" {
		nStall = 6
	}
	for i := uint64(0); i < nStall; i++ {
		out = append(out, []uint64{5, i, 4242})
	}
	// the 65,536 masked-byte values in 16 (quick: 4 sampled) slices
	n := uint64(16)
	for i := uint64(0); i < n; i++ {
		if tier == "quick" && i%4 != 0 {
			continue
		}
		out = append(out, []uint64{2, i, n})
	}
	for i := uint64(0); i < 6; i++ {
		out = append(out, []uint64{3, i, i})
	}
	out = append(out, []uint64{4, 0, 0})
	if tier == "thorough" {
		for i := uint64(1); i < 10; i++ {
			out = append(out, []uint64{4, i, 0})
		}
	}
	return out
}

type builtID struct {
	task    int
	builder string
	id      string
}

func c18Build(sp *saml2.SAMLServiceProvider, b string) (string, error) {
	var xml string
	var err error
	switch b {
	case "BuildAuthRequest":
		xml, err = sp.BuildAuthRequest()
	case "BuildAuthRequestDocumentNoSig":
		d, e := sp.BuildAuthRequestDocumentNoSig()
		if e != nil {
			return "", e
		}
		xml, err = d.WriteToString()
	case "BuildLogoutRequestDocument", "BuildLogoutRequestDocumentNoSig":
		f := sp.BuildLogoutRequestDocument
		if strings.HasSuffix(b, "NoSig") {
			f = sp.BuildLogoutRequestDocumentNoSig
		}
		d, e := f("alice", "s1")
		if e != nil {
			return "", e
		}
		xml, err = d.WriteToString()
	case "BuildLogoutResponseDocument", "BuildLogoutResponseDocumentNoSig":
		f := sp.BuildLogoutResponseDocument
		if strings.HasSuffix(b, "NoSig") {
			f = sp.BuildLogoutResponseDocumentNoSig
		}
		d, e := f(world.StatusOK, "_req1")
		if e != nil {
			return "", e
		}
		xml, err = d.WriteToString()
	case "BuildAuthBodyPost":
		body, e := sp.BuildAuthBodyPost("rs")
		if e != nil {
			return "", e
		}
		pp, e := world.ParsePage(body)
		if e != nil {
			return "", e
		}
		for _, f := range pp.Fields {
			if f.Name == "SAMLRequest" {
				dec, e := decodeB64(f.Value)
				if e != nil {
					return "", e
				}
				xml = string(dec)
			}
		}
	case "BuildAuthURL":
		u, e := sp.BuildAuthURL("rs")
		if e != nil {
			return "", e
		}
		p, e := world.SplitRedirect(u)
		if e != nil || len(p.ByKey["SAMLRequest"]) != 1 {
			return "", fmt.Errorf("no SAMLRequest in %q", u)
		}
		dv, _ := urlUnescape(p.ByKey["SAMLRequest"][0])
		inf, e := world.InflateB64(dv)
		if e != nil {
			return "", e
		}
		xml = string(inf)
	case "uuid.NewV4":
		return "_" + uuid.NewV4().String(), nil
	}
	if err != nil {
		return "", err
	}
	m := idAttrRe.FindStringSubmatch(xml)
	if m == nil {
		return "", fmt.Errorf("no ID attribute in %s", trunc(xml, 200))
	}
	return m[1], nil
}

// idBytes parses the 16 bytes an ID renders.
func idBytes(id string) ([]byte, bool) {
	if !idRe.MatchString(id) {
		return nil, false
	}
	h := strings.ReplaceAll(id[1:], "-", "")
	out := make([]byte, 16)
	for i := 0; i < 16; i++ {
		var v int
		fmt.Sscanf(h[2*i:2*i+2], "%02x", &v)
		out[i] = byte(v)
	}
	return out, true
}

// matchesWindow: b equals w except for the forced version / variant bits.
func matchesWindow(b, w []byte) bool {
	for i := 0; i < 16; i++ {
		x, y := b[i], w[i]
		switch i {
		case 6:
			x, y = x&0x0f, y&0x0f
		case 8:
			x, y = x&0x3f, y&0x3f
		}
		if x != y {
			return false
		}
	}
	return true
}

// c18Check applies the refinement oracle to the IDs built in one phase.
func c18Check(r *core.Run, ids []builtID, ent *TaskEntropy, nStreams int, ctx map[string]any) {
	nStreams = len(ent.streams)              // including the stream served to goroutines the library started itself
	used := make([]map[int]string, nStreams) // stream -> window offset -> id
	for i := range used {
		used[i] = map[int]string{}
	}
	served := make([][]byte, nStreams)
	for i := range served {
		served[i] = ent.Served(i)
	}
	seen := map[string]bool{}
	for _, b := range ids {
		c := map[string]any{"id": b.id, "builder": b.builder, "task": b.task}
		for k, v := range ctx {
			c[k] = v
		}
		bs, ok := idBytes(b.id)
		if !ok {
			r.Fail("form", "C18/id-not-canonical-v4-xs-ID/"+b.builder, c)
			return
		}
		if seen[b.id] {
			r.Fail("unique", "C18/duplicate-id", c)
			return
		}
		seen[b.id] = true
		found := false
		for s := 0; s < nStreams && !found; s++ {
			sv := served[s]
			for off := 0; off+16 <= len(sv); off++ {
				if matchesWindow(bs, sv[off:off+16]) {
					// conservation: the window must not overlap one already used
					overlap := false
					for o := range used[s] {
						if o < off+16 && off < o+16 {
							overlap = true
						}
					}
					if overlap {
						continue
					}
					used[s][off] = b.id
					found = true
					break
				}
			}
		}
		if !found {
			// an implementation may buffer entropy across calls and runs: look in everything
			// crypto/rand.Reader ever served in this process (each window still used once)
			servedMu.Lock()
			for off := 0; off+16 <= len(servedHistory) && !found; off++ {
				if matchesWindow(bs, servedHistory[off:off+16]) {
					overlap := false
					for d := -15; d <= 15; d++ {
						if usedHistory[off+d] {
							overlap = true
						}
					}
					if !overlap {
						usedHistory[off] = true
						found = true
					}
				}
			}
			servedMu.Unlock()
		}
		if !found {
			r.Fail("provenance", "C18/id-bits-not-from-served-entropy", c)
			return
		}
	}
}

func c18Run(r *core.Run) {
	t := r.Tape
	mode := c18Modes[t.Int(len(c18Modes), "c18.mode")]
	p1 := t.Int(1<<16, "c18.p1")
	p2 := t.Int(1<<16, "c18.p2")
	if mode == "stalled-entropy" && p2 != 4242 {
		mode = "sequential-history" // the stall costs real seconds: directed cases only
	}
	r.Probe("mode=" + mode)
	o := DrawOut(r, 1, true)
	if world.Key(o.WantSignKey).EC != nil {
		// ECDSA signing draws from the same reader; keep the accounting to identifiers
		o.SigStyle, o.Cfg.SigStyle = world.KeyNone, world.KeyNone
		o.Cfg.SigAlg = ""
	}
	if o.EncStyle == world.KeyNone {
		o.EncStyle, o.Cfg.EncStyle = world.KeyField, world.KeyField
	}
	o.Cfg.Skew, o.Cfg.Loc = 0, time.UTC
	// the signing key sits behind a signer that now and then fails one call (remote key service): the build
	// under way may fail, but whatever is produced around such a hiccup carries identifiers like any other
	var flaky *world.FaultCtl
	if mode == "sequential-history" && t.Int(3, "c18.flakysigner") == 1 {
		flaky = &world.FaultCtl{}
		o.Cfg.SignerFault = flaky
		if o.SigStyle == world.KeyNone {
			o.EncStyle, o.Cfg.EncStyle = world.KeySetter, world.KeySetter
		} else {
			o.SigStyle, o.Cfg.SigStyle = world.KeySetter, world.KeySetter
		}
	}
	if !o.Build() {
		return
	}
	cfg2 := *o.Cfg
	cfg2.SPIssuer = "https://second-sp.example/meta"
	n2, err := world.NewSPNode(&cfg2, r.Sim.Time)
	if err != nil {
		r.HarnessError("build second: %v", err)
		return
	}
	sps := []*saml2.SAMLServiceProvider{o.Node.SP, n2.SP}
	kindProbe := func(b string) {
		switch {
		case strings.Contains(b, "LogoutRequest"):
			r.Probe("kind=LogoutRequest")
		case strings.Contains(b, "LogoutResponse"):
			r.Probe("kind=LogoutResponse")
		case strings.Contains(b, "Auth"):
			r.Probe("kind=AuthnRequest")
		}
	}
	ctx := obs("mode", mode, "key_config", o.KeyCfg())
	switch mode {
	case "scheduled-builders", "short-reads":
		nTasks := 2 + t.Int(5, "c18.ntasks")
		strategy := schedStrategies[1+t.Int(len(schedStrategies)-1, "c18.strategy")]
		type plan struct {
			builders []string
			sp       int
		}
		plans := make([]plan, nTasks)
		desc := ""
		for i := range plans {
			n := 1 + t.Int(6, "c18.nbuild")
			plans[i].sp = t.Int(2, "c18.sp")
			if plans[i].sp == 1 {
				r.Probe("two_instances")
			}
			for j := 0; j < n; j++ {
				b := c18Builders[t.Int(len(c18Builders), "c18.builder")]
				plans[i].builders = append(plans[i].builders, b)
				kindProbe(b)
			}
			desc += fmt.Sprintf("T%d@%d%v", i, plans[i].sp, plans[i].builders)
		}
		ent := NewTaskEntropy(t, nTasks, mode == "short-reads")
		ent.Install()
		defer ent.Uninstall()
		if mode == "short-reads" {
			r.Fault("short_entropy_reads")
		}
		results := make([][]builtID, nTasks)
		errs := make([]error, nTasks)
		bodies := make([]func(), nTasks)
		for i := range plans {
			i := i
			bodies[i] = func() {
				for _, b := range plans[i].builders {
					id, err := c18Build(sps[plans[i].sp], b)
					if err != nil {
						errs[i] = err
						return
					}
					results[i] = append(results[i], builtID{i, b, id})
				}
			}
		}
		raceBefore := raceLogSize()
		st := runTasks(r, bodies, strategy)
		r.Steps += st.Yields
		if st.Preemptive {
			r.Probe("preemption")
			r.Fault("preemption")
		}
		r.Logf("mode=%s strategy=%s %s switches=%d", mode, strategy, desc, st.Switches)
		r.Shape(mode + "|" + desc + "|" + st.Signature)
		r.Sample = obs("mode", mode, "strategy", strategy, "workload", desc, "context_switches", st.Switches, "interleaving", st.Signature)
		ctx["workload"], ctx["strategy"] = desc, strategy
		if r.Harness != "" {
			return
		}
		if st.Deadlock {
			r.Fail("deadlock", "C18/deadlock", ctx)
			return
		}
		for i, e := range errs {
			if e != nil {
				ctx["err"], ctx["task"] = e.Error(), i
				r.Fail("produce", "C18/build-failed", ctx)
				return
			}
		}
		if sz := raceLogSize(); sz > raceBefore {
			if rep := libraryRaces(raceLogTail(raceBefore)); rep != "" {
				ctx["race_report"] = trunc(rep, 3000)
				r.Fail("race", "C18/data-race/"+raceSummary(rep), ctx)
				return
			}
			r.Probe("race_report_on_harness_memory_ignored")
		}
		var all []builtID
		for _, rs := range results {
			all = append(all, rs...)
		}
		c18Check(r, all, ent, nTasks, ctx)

	case "sequential-history":
		n := 20 + p1%181
		ent := NewTaskEntropy(t, 1, false)
		ent.Install()
		defer ent.Uninstall()
		var all []builtID
		type keptDoc struct {
			doc     *etree.Document
			builder string
		}
		var kept []keptDoc
		for i := 0; i < n; i++ {
			b := c18Builders[(p2+i*7+i/5)%len(c18Builders)]
			kindProbe(b)
			if i == n/3 && p1%3 == 1 {
				// the application copies its (already used) service providers by value and goes on with the
				// originals and the copies
				c0, c1 := *sps[0], *sps[1]
				sps = []*saml2.SAMLServiceProvider{sps[0], &c0, sps[1], &c1}
				r.Probe("sp_copied_by_value_after_use")
				r.Fault("sp_copied_by_value_after_use")
			}
			if len(sps) == 4 {
				if id, err := c18Build(sps[i%4], b); err == nil {
					all = append(all, builtID{0, b + "(copy-mix)", id})
					continue
				}
			}
			if strings.HasSuffix(b, "DocumentNoSig") && i%2 == 0 {
				// the document is kept while later messages are built and serialised only at the end
				var d *etree.Document
				var err error
				sp := sps[(i/3)%2]
				switch {
				case strings.Contains(b, "AuthRequest"):
					d, err = sp.BuildAuthRequestDocumentNoSig()
				case strings.Contains(b, "LogoutRequest"):
					d, err = sp.BuildLogoutRequestDocumentNoSig("alice", "s1")
				default:
					d, err = sp.BuildLogoutResponseDocumentNoSig(world.StatusOK, "_req1")
				}
				if err != nil {
					ctx["err"] = err.Error()
					r.Fail("produce", "C18/build-failed", ctx)
					return
				}
				kept = append(kept, keptDoc{d, b + "(kept)"})
				continue
			}
			hiccup := flaky != nil && i%4 == 2
			if hiccup {
				flaky.FailNext = 1
			}
			id, err := c18Build(sps[(i/3)%2], b)
			if hiccup {
				fired := flaky.FailNext == 0
				flaky.FailNext = 0
				if fired {
					r.Fault("signer_fails_one_call")
					if err != nil {
						continue // the build under way was refused: nothing was produced
					}
					b += "(around-a-signer-hiccup)"
				}
			}
			if err != nil {
				ctx["err"] = err.Error()
				r.Fail("produce", "C18/build-failed", ctx)
				return
			}
			all = append(all, builtID{0, b, id})
		}
		for _, k := range kept {
			x, err := k.doc.WriteToString()
			m := idAttrRe.FindStringSubmatch(x)
			if err != nil || m == nil {
				r.Fail("produce", "C18/build-failed", ctx)
				return
			}
			all = append(all, builtID{0, k.builder, m[1]})
		}
		r.Probe("documents_kept_then_serialised")
		r.Probe("two_instances")
		r.Steps += n
		r.Shape(fmt.Sprintf("seq.%d.%d", n, p2%len(c18Builders)))
		r.Sample = obs("mode", mode, "constructions", n, "first_ids", fmt.Sprint(all[0].id, " ", all[1].id))
		c18Check(r, all, ent, 1, ctx)

	case "stalled-entropy":
		// the entropy source answers, but late (early boot, a stalled hardware token): the library has to
		// wait for it; identifiers still come from what the source eventually serves and from nothing else
		stall := time.Duration(2500+500*(p1%4)) * time.Millisecond
		ent := NewTaskEntropy(t, 1, false)
		ent.stallAt, ent.stallFor = 1+p1%3, stall
		ent.Install()
		defer ent.Uninstall()
		r.Fault("entropy_source_stalls")
		var all []builtID
		for i := 0; i < 4; i++ {
			b := c18Builders[(p1+i*2)%len(c18Builders)]
			kindProbe(b)
			id, err := c18Build(sps[i%2], b)
			if err != nil {
				ctx["err"] = err.Error()
				r.Fail("produce", "C18/build-failed", ctx)
				return
			}
			all = append(all, builtID{0, b, id})
		}
		r.Steps += 4
		r.Shape(fmt.Sprintf("stall.%d.%d", p1%3, p1%4))
		r.Sample = obs("mode", mode, "stall", stall.String(), "read", 1+p1%3)
		ctx["stall"] = stall.String()
		c18Check(r, all, ent, 1, ctx)

	case "masked-bytes-enumeration":
		// all values of entropy bytes 6 and 8 (the two bytes that carry forced bits)
		slices := p2
		if slices == 0 {
			slices = 16
		}
		part := p1 % slices
		e := &fixedEntropy{fill: core.NewSplitMix(uint64(part) + 99)}
		old := crand.Reader
		crand.Reader = e
		defer func() { crand.Reader = old }()
		cnt, direct := 0, 0
		usedAt := map[int]bool{}
		for v := part; v < 65536; v += slices {
			blk := t0Block(v)
			e.next = blk
			id := "_" + uuid.NewV4().String()
			bs, ok := idBytes(id)
			if !ok || bs[6]>>4 != 4 || bs[8]>>6 != 2 {
				ctx["id"] = id
				r.Fail("form", "C18/id-not-canonical-v4-xs-ID/uuid.NewV4", ctx)
				return
			}
			// the ID renders an unused 16-byte window of what was served (normally the block just served)
			found := false
			for off := len(e.served) - 16; off >= 0 && !found; off-- {
				if matchesWindow(bs, e.served[off:off+16]) {
					overlap := false
					for d := -15; d <= 15; d++ {
						if usedAt[off+d] {
							overlap = true
						}
					}
					if !overlap {
						usedAt[off] = true
						found = true
						if matchesWindow(bs, blk) {
							direct++
						}
					}
				}
			}
			if !found {
				ctx["id"], ctx["served_block"] = id, fmt.Sprintf("%x", blk)
				r.Fail("refinement", "C18/masked-byte-rendering", ctx)
				return
			}
			cnt++
		}
		if direct > 0 {
			r.Probe("enumerated_block_rendered")
		}
		r.Steps += cnt
		r.Shape(fmt.Sprintf("enum.%d/%d", part, slices))
		r.Sample = obs("mode", mode, "slice", part, "of", slices, "values", cnt)

	case "real-entropy":
		// with the OS reader: IDs across kinds, instances and goroutines pairwise distinct
		total := 100000
		if thoroughBombs {
			total = 1000000
		}
		if p1 > 0 {
			total /= 10
		}
		g := 8
		per := total / g
		out := make([][]string, g)
		var wg sync.WaitGroup
		var firstErr error
		var mu sync.Mutex
		for k := 0; k < g; k++ {
			wg.Add(1)
			go func(k int) {
				defer wg.Done()
				for i := 0; i < per; i++ {
					b := "uuid.NewV4"
					if i%64 == 0 {
						b = c18Builders[(i/64+k)%len(c18Builders)]
						if strings.HasSuffix(b, "Document") || b == "BuildAuthRequest" || b == "BuildAuthBodyPost" {
							b = "BuildAuthRequestDocumentNoSig" // keep the phase cheap: no signing
						}
					}
					var id string
					var err error
					if g := world.Guard(func() error { id, err = c18Build(sps[k%2], b); return err }); g.Panic != "" {
						err = fmt.Errorf("panic: %s", g.Panic)
					}
					if err != nil {
						mu.Lock()
						firstErr = err
						mu.Unlock()
						return
					}
					out[k] = append(out[k], id)
				}
			}(k)
		}
		wg.Wait()
		if firstErr != nil {
			ctx["err"] = firstErr.Error()
			r.Fail("produce", "C18/build-failed", ctx)
			return
		}
		seen := make(map[string]struct{}, total)
		for _, ids := range out {
			for _, id := range ids {
				if !idRe.MatchString(id) {
					ctx["id"] = id
					r.Fail("form", "C18/id-not-canonical-v4-xs-ID/real-entropy", ctx)
					return
				}
				if _, dup := seen[id]; dup {
					ctx["id"] = id
					r.Fail("unique", "C18/duplicate-id/real-entropy", ctx)
					return
				}
				seen[id] = struct{}{}
			}
		}
		r.Steps += len(seen)
		r.Shape("real")
		r.Sample = obs("mode", mode, "ids", len(seen), "goroutines", g)
	}
}

// fixedEntropy serves the enumerated block first and unique filler afterwards, and records
// everything it served.
type fixedEntropy struct {
	next   []byte
	fill   *core.SplitMix64
	served []byte
}

func (f *fixedEntropy) Read(p []byte) (int, error) {
	n := copy(p, f.next)
	f.next = f.next[n:]
	if n == 0 {
		for i := range p {
			p[i] = byte(f.fill.Next())
		}
		n = len(p)
	}
	f.served = append(f.served, p[:n]...)
	return n, nil
}

// t0Block is a 16-byte block whose bytes 6 and 8 take the enumerated value.
func t0Block(v int) []byte {
	b := bytes.Repeat([]byte{0x5a}, 16)
	for i := range b {
		b[i] = byte(0x11*i + 3)
	}
	b[6], b[8] = byte(v>>8), byte(v)
	return b
}
