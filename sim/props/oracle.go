package props

import (
	"fmt"
	"time"

	saml2 "github.com/russellhaering/gosaml2"
	"github.com/russellhaering/gosaml2/types"

	"verifsim/core"
	"verifsim/world"
)

// unitHonoured: the unit's signing certificate is a member of the store (DER identity)
// and the clock lies inside its validity period.
func unitHonoured(u *world.IssuedUnit, store []*world.Cert, now time.Time) bool {
	for _, c := range store {
		if string(c.DER) == string(u.Cert.DER) && c.KeyIdx == u.KeyIdx {
			return !now.Before(c.X509.NotBefore) && !now.After(c.X509.NotAfter)
		}
	}
	return false
}

// conservation is the C01/C04 oracle over the issue log: whatever the SP accepted must
// be a signed unit of a trusted IdP, field for field, and the trust indicators must not
// overstate. It reports through r.Fail with signatures prefixed by prop.
func conservation(r *core.Run, prop string, resp *types.Response, logs []*world.IdP, store []*world.Cert, now time.Time, skip bool, ctx map[string]any) bool {
	got := world.NormResponse(resp)
	cp := func(extra ...any) map[string]any {
		m := map[string]any{}
		for k, v := range ctx {
			m[k] = v
		}
		for i := 0; i+1 < len(extra); i += 2 {
			m[fmt.Sprint(extra[i])] = extra[i+1]
		}
		m["returned"] = trunc(world.J(got), 1500)
		return m
	}
	if skip {
		if resp.SignatureValidated {
			r.Fail("flags", prop+"/flag-true-with-checking-off/Response", cp())
			return false
		}
		for i := range resp.Assertions {
			if resp.Assertions[i].SignatureValidated {
				r.Fail("flags", prop+"/flag-true-with-checking-off/Assertion", cp("assertion", i))
				return false
			}
		}
		return true
	}
	if resp.SignatureValidated {
		ok := false
		for _, idp := range logs {
			for i := range idp.Log {
				u := &idp.Log[i]
				if u.Kind == "Response" && u.Resp != nil && unitHonoured(u, store, now) && world.EqualResponse(got, *u.Resp) {
					ok = true
				}
			}
		}
		if !ok {
			r.Fail("conservation", prop+"/response-flagged-validated-but-not-in-issue-log", cp())
			return false
		}
		r.Probe("accept_via_signed_response")
	}
	if len(resp.Assertions) == 0 {
		r.Fail("conservation", prop+"/accepted-without-assertion", cp())
		return false
	}
	for i := range resp.Assertions {
		a := &resp.Assertions[i]
		na := got.Assertions[i]
		if !resp.SignatureValidated && !a.SignatureValidated {
			r.Fail("conservation", prop+"/unsigned-response-returns-unvalidated-assertion", cp("assertion", i))
			return false
		}
		if a.SignatureValidated || !resp.SignatureValidated {
			ok := false
			for _, idp := range logs {
				for j := range idp.Log {
					u := &idp.Log[j]
					if u.Kind == "Assertion" && u.Assn != nil && unitHonoured(u, store, now) && world.EqualAssertion(na, *u.Assn) {
						ok = true
					}
				}
			}
			if !ok {
				r.Fail("conservation", prop+"/assertion-not-in-issue-log", cp("assertion", i, "assertion_returned", trunc(world.J(na), 900)))
				return false
			}
		}
	}
	if !resp.SignatureValidated {
		r.Probe("accept_via_signed_assertions")
		if len(resp.Assertions) >= 2 {
			r.Probe("accept_via_unsigned_response_with_2+_assertions")
		}
	}
	return true
}

// infoConservation checks the caller-facing summary against the first returned
// assertion (which conservation() has tied to the issue log).
func infoConservation(r *core.Run, prop string, ai *saml2.AssertionInfo, ctx map[string]any) bool {
	if len(ai.Assertions) == 0 {
		r.Fail("conservation", prop+"/info-without-assertion", ctx)
		return false
	}
	a0 := world.NormAssertion(&ai.Assertions[0])
	bad := func(what string, g, w any) bool {
		m := map[string]any{"got": g, "want": w}
		for k, v := range ctx {
			m[k] = v
		}
		r.Fail("conservation", prop+"/info-not-from-first-assertion/"+what, m)
		return false
	}
	if a0.Subject == nil || a0.Subject.NameID == nil || ai.NameID != *a0.Subject.NameID {
		return bad("NameID", ai.NameID, world.J(a0.Subject))
	}
	want := map[string]world.NAttr{}
	for _, at := range a0.Attrs {
		want[at.Name] = at
	}
	if len(ai.Values) != len(want) {
		return bad("Values", len(ai.Values), len(want))
	}
	for k, w := range want {
		g := ai.Values.GetAll(k)
		if len(g) != len(w.Values) {
			return bad("Values."+k, g, w.Values)
		}
		for i := range g {
			if g[i] != w.Values[i] {
				return bad("Values."+k, g, w.Values)
			}
		}
	}
	si := ""
	if a0.Authn != nil {
		si = a0.Authn.SessionIndex
	}
	if ai.SessionIndex != si {
		return bad("SessionIndex", ai.SessionIndex, si)
	}
	var wantAI, wantSN *int64
	if a0.Authn != nil {
		wantAI, wantSN = a0.Authn.AuthnInstant, a0.Authn.SessionNotOnOrAfter
	}
	inst := func(t *time.Time) *int64 {
		if t == nil {
			return nil
		}
		v := t.UnixNano()
		return &v
	}
	same := func(x, y *int64) bool { return (x == nil) == (y == nil) && (x == nil || *x == *y) }
	if g := inst(ai.AuthnInstant); !same(g, wantAI) {
		return bad("AuthnInstant", world.J(g), world.J(wantAI))
	}
	if g := inst(ai.SessionNotOnOrAfter); !same(g, wantSN) {
		return bad("SessionNotOnOrAfter", world.J(g), world.J(wantSN))
	}
	return true
}
