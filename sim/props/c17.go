//go:build conc

package props

import (
	"encoding/hex"
	"encoding/xml"
	"fmt"
	"strings"
	"time"

	"github.com/beevik/etree"
	saml2 "github.com/russellhaering/gosaml2"
	"github.com/russellhaering/gosaml2/types"

	"verifsim/core"
	"verifsim/world"
)

// C17 — a configured service provider is goroutine-safe; calls are isolated and pure.
// 2-6 tasks, each a drawn sequence of 1-4 public operations, run on one shared, fresh SP
// (so the first signers race on the lazy signing context) under the seeded scheduler of
// the instrumented library copy, with the race detector live. Every result is compared
// with the same task sequence executed alone on an identical fresh SP.

var c17Ops = []string{
	"BuildAuthRequest", "BuildAuthRequestDocument", "BuildAuthBodyPost", "BuildAuthURL", "BuildAuthURLRedirect",
	"BuildLogoutRequestDocument", "BuildLogoutURLRedirect", "BuildLogoutBodyPost", "BuildLogoutResponseDocument", "BuildLogoutResponseBodyPost",
	"SignAuthnRequest", "SigningContext",
	"ValidateEncodedResponse", "RetrieveAssertionInfo", "RetrieveAssertionInfo(assertion-signed)", "RetrieveAssertionInfo(encrypted)", "RetrieveAssertionInfo(damaged)",
	"RetrieveAssertionInfo(compressed)", "RetrieveAssertionInfo(compressed2)",
	"ValidateEncodedLogoutRequestPOST", "ValidateEncodedLogoutResponsePOST", "DecodeUnverifiedBaseResponse",
	"Metadata", "MetadataWithSLO", "GetSigningCertBytes",
	"SignLogoutRequest(held)", "SignLogoutResponse(held)", "SignAuthnRequest(held)",
	// the exported Validate on a decoded Response that several callers hold (one ACS offering a message to
	// each configured SP in turn): acceptable / refused
	"Validate(decoded)", "Validate(decoded,refused)",
	// an unsigned Response whose only assertion is signed and travels encrypted (the SP decrypts into the tree)
	"RetrieveAssertionInfo(encrypted-assertion-signed)",
}

// operations whose results do not depend on the time of the call (usable when the SP has no
// injected clock and reads real time)
var c17TimelessOps = []int{12, 13, 14, 15, 16, 17, 18, 19, 20, 21, 24, 28, 29, 30}

func init() {
	register(&Prop{
		ID:     "C17",
		Engine: "conc",
		Level:  "exploration",
		Rule: "seeded schedules over real goroutines of the instrumented library (a yield before every statement and lock acquisition; strategies: sequential baseline, random walk, PCT-style priorities with change points, fine round-robin, long runs switching near locks): 2-6 tasks x 1-4 operations drawn from 23 public operations on one shared fresh SP (sometimes a second instance), per-task entropy, frozen clock; " +
			"oracles: race detector log did not grow, every result equals the solo re-execution of its task on an identical fresh SP, configuration snapshot and arguments unchanged, results scribbled over after return do not affect later results, no deadlock; distinct = context-switch sequences (hash of switch points with yield sites) x workload",
		Directed:   c17Directed,
		Run:        c17Run,
		MustHit:    []string{"strategy=random-walk", "strategy=pct", "strategy=round-robin-fine", "preemption", "two_first_signers", "op=Metadata", "op=RetrieveAssertionInfo", "second_instance", "non_default_algorithm", "sp_without_clock", "op=SignLogoutResponse(held)", "op=Validate(decoded,refused)"},
		RandomRuns: map[string]int{"quick": 600, "thorough": 12000},
		Assumptions: []string{"data-race freedom is shown for the executed schedules of the generated workloads",
			"channel operations, select, x.Wait() statements and go statements of the library are modelled; blocking inside uninstrumented dependencies is not (a watchdog turns a task that never yields into a harness error, exit 2)",
			"the certificate getters return the configured slice itself, which is configuration, not a result (not scribbled)"},
		Stub: []string{"IdP (issuer)", "clock (frozen during the concurrent phase)", "entropy source (per-task streams)", "key and certificate stores (stateless)", "goroutine scheduler (seeded, cooperative over instrumented yield points)"},
	})
}

// draw order: strategy, nTasks, then per task (nOps, ops...), second instance
func c17Directed(tier string) [][]uint64 {
	var out [][]uint64
	sign := []uint64{0, 1, 2, 5, 8, 10}
	// two and three first signers racing on the lazy signing context, every strategy
	for st := uint64(0); st < 5; st++ {
		for a := 0; a < len(sign); a++ {
			for b := 0; b < len(sign); b++ {
				if tier == "quick" && (int(st)+a+b)%3 != 0 {
					continue
				}
				out = append(out, []uint64{st, 0, 0, sign[a], 0, sign[b]})
				out = append(out, []uint64{st, 1, 0, sign[a], 0, sign[b], 1, 11, 20})
			}
		}
	}
	// every operation next to a signer
	for op := uint64(0); op < uint64(len(c17Ops)); op++ {
		out = append(out, []uint64{1, 1, 1, op, 0, 0, 0, 1, 12, op})
		out = append(out, []uint64{4, 0, 1, op, op, 1, 20, 21})
	}
	// caller-held elements signed twice, next to another signer
	for st := uint64(0); st < 5; st++ {
		for op := uint64(25); op < 28; op++ {
			out = append(out, []uint64{st, 0, 0, op, 1, op, 0})
		}
	}
	// an SP without a configured clock: concurrent first validations
	for st := uint64(1); st < 5; st++ {
		out = append(out, []uint64{st, 1, 0, 0, 0, 1, 1, 7, 2, 0, 1})
		out = append(out, []uint64{st, 0, 1, 0, 7, 1, 8, 1, 0, 1})
	}
	// concurrent validations of compressed messages
	for st := uint64(1); st < 5; st++ {
		out = append(out, []uint64{st, 1, 1, 17, 18, 1, 18, 17, 0, 17})
		out = append(out, []uint64{st, 2, 0, 17, 0, 18, 0, 17, 0, 18})
	}
	return out
}

type c17Env struct {
	msgs    map[string]string
	decoded map[string]*types.Response // decoded by the application, shared by the tasks
	relay   string
	results [][]string // per task: digests in order
}

func c17Run(r *core.Run) {
	t := r.Tape
	strategy := schedStrategies[t.Int(len(schedStrategies), "c17.strategy")]
	nTasks := 2 + t.Int(5, "c17.ntasks")
	type plan struct {
		ops    []int
		second bool
	}
	var plans []plan
	for i := 0; i < nTasks; i++ {
		n := 1 + t.Int(4, "c17.nops")
		p := plan{}
		for j := 0; j < n; j++ {
			p.ops = append(p.ops, t.Int(len(c17Ops), "c17.op"))
		}
		plans = append(plans, p)
	}
	useSecond := t.Int(4, "c17.second") == 1
	// the SP has no Clock configured (the library then reads real time): certificates are valid
	// 2000-2100, messages are minted for the year 2090, only operations whose result does not
	// contain the time of the call are used
	realClock := t.Int(6, "c17.realclock") == 1
	if realClock {
		for i := range plans {
			for j, op := range plans[i].ops {
				plans[i].ops[j] = c17TimelessOps[op%len(c17TimelessOps)]
			}
		}
		r.Probe("sp_without_clock")
		r.Fault("sp_reads_real_time")
	}
	r.Probe("strategy=" + strategy)

	o := DrawOut(r, 1, true)
	if world.Key(o.WantSignKey).EC != nil {
		// RSA signatures are deterministic, so results are comparable bit for bit
		o.SigStyle, o.Cfg.SigStyle = world.KeyNone, world.KeyNone
		o.WantSignKey, o.WantSignCert = o.EncKey, o.EncCert
		o.Cfg.SigAlg = ""
	}
	if o.EncStyle == world.KeyNone {
		o.EncStyle, o.Cfg.EncStyle = world.KeyField, world.KeyField
	}
	if o.Cfg.SigAlg != "" || o.Cfg.Canon != nil {
		r.Probe("non_default_algorithm")
	}
	if realClock {
		o.Cfg.NilClock = true
		o.IdPCert = world.MintCert(o.IdPKey, time.Date(2000, 1, 1, 0, 0, 0, 0, time.UTC), time.Date(2100, 1, 1, 0, 0, 0, 0, time.UTC), 0)
	}
	o.Cfg.Store = &world.SimCertStore{Certs: []*world.Cert{o.IdPCert}}
	o.Cfg.PlainStore = true
	o.Cfg.AllowMissing = true
	o.Cfg.Skew, o.Cfg.Loc = 0, time.UTC
	if !o.Build() {
		return
	}
	cfg2 := *o.Cfg
	cfg2.SPIssuer = "https://second-sp.example/meta"
	cfg2.SigAlg = ""
	cfg2.Canon = nil
	mk2 := func() *saml2.SAMLServiceProvider {
		n, err := world.NewSPNode(&cfg2, r.Sim.Time)
		if err != nil {
			return nil
		}
		return n.SP
	}
	if useSecond {
		r.Probe("second_instance")
		for i := range plans {
			plans[i].second = i%2 == 1
		}
	}
	// message pool (prepared by the controller before any task starts)
	env := &c17Env{msgs: map[string]string{}, relay: `rs"<&>`}
	now := o.Node.Now()
	if realClock {
		now = time.Date(2090, 1, 1, 0, 0, 0, 0, time.UTC)
	}
	fed := world.Fed{IdPIssuer: o.Cfg.IdPIssuer, ACS: o.Cfg.ACS, SLO: o.Cfg.SLO, SPIssuer: o.Cfg.SPIssuer, Audience: o.Cfg.Audience}
	issue := func(m *world.LResponse) string {
		x, err := o.IdP.Issue(m, world.Layout{}, r.Sim.Now())
		if err != nil {
			r.HarnessError("issue: %v", err)
		}
		return world.Present(x, false, 0)
	}
	m1 := world.GenResponse(t, o.IdP, fed, now, 1, true)
	m1.Sign = world.PlainSigOpts(o.IdPKey, o.IdPCert)
	// conditions that only raise warnings: validating the same message again (on the same SP, from another
	// goroutine) must give the same outcome and the same warnings
	m1.Assertions[0].OneTimeUse = t.Bool("c17.onetimeuse")
	if t.Bool("c17.proxy") {
		m1.Assertions[0].Proxy = &world.LProxy{Count: 1, Audiences: []string{"https://other.example/meta"}}
	}
	env.msgs["response"] = issue(m1)
	m2 := world.GenResponse(t, o.IdP, fed, now, 2, true)
	for _, a := range m2.Assertions {
		a.Sign = world.PlainSigOpts(o.IdPKey, o.IdPCert)
	}
	env.msgs["assertion-signed"] = issue(m2)
	m3 := world.GenResponse(t, o.IdP, fed, now, 1, false)
	m3.Sign = world.PlainSigOpts(o.IdPKey, o.IdPCert)
	m3.Assertions[0].Encrypt = world.DrawEncOpts(t, &world.Key(o.EncKey).RSA.PublicKey, o.EncCert.DER)
	env.msgs["encrypted"] = issue(m3)
	m4 := world.GenResponse(t, o.IdP, fed, now, 1, false)
	m4.Assertions[0].Sign = world.PlainSigOpts(o.IdPKey, o.IdPCert)
	m4.Assertions[0].Sign.EmptyURI = false
	m4.Assertions[0].Sign.ExclusiveOnly()
	m4.Assertions[0].Encrypt = world.DrawEncOpts(t, &world.Key(o.EncKey).RSA.PublicKey, o.EncCert.DER)
	env.msgs["encrypted-assertion-signed"] = issue(m4)
	lr := world.GenLogout(t, o.IdP, fed, now, "LogoutRequest")
	lr.Sign = world.PlainSigOpts(o.IdPKey, o.IdPCert)
	env.msgs["logout-request"] = issue(lr)
	lp := world.GenLogout(t, o.IdP, fed, now, "LogoutResponse")
	lp.Sign = world.PlainSigOpts(o.IdPKey, o.IdPCert)
	env.msgs["logout-response"] = issue(lp)
	// DEFLATE presentations (their own decoding path)
	for _, kv := range [][2]string{{"compressed", "response"}, {"compressed2", "assertion-signed"}} {
		raw, _ := decodeB64(env.msgs[kv[1]])
		env.msgs[kv[0]] = world.B64(world.Deflate(raw, 6))
	}
	env.decoded = map[string]*types.Response{}
	for _, key := range []string{"ok", "refused"} {
		md := world.GenResponse(t, o.IdP, fed, now, 2, true)
		if key == "refused" {
			md.Assertions[1].Issuer = strp("https://somebody-else.example/meta")
		}
		x, err := o.IdP.Issue(md, world.Layout{}, r.Sim.Now())
		dr := &types.Response{}
		if err != nil || world.AppDecode(x, dr) != nil {
			r.HarnessError("decoded response for %s: %v", key, err)
			return
		}
		env.decoded[key] = dr
	}
	dm := []byte(env.msgs["response"])
	dm[len(dm)/2] ^= 1
	env.msgs["damaged"] = string(dm)
	if r.Harness != "" {
		return
	}
	ent := NewTaskEntropy(t, nTasks, false)
	ent.Install()
	defer ent.Uninstall()

	shared := o.Node.SP
	shared2 := mk2()
	snapBefore := c17Snapshot(shared)
	raceBefore := raceLogSize()
	env.results = make([][]string, nTasks)
	signers := 0
	bodies := make([]func(), nTasks)
	for i := range plans {
		i := i
		first := c17Ops[plans[i].ops[0]]
		if strings.HasPrefix(first, "Build") || first == "SignAuthnRequest" || first == "SigningContext" {
			signers++
		}
		bodies[i] = func() {
			sp := shared
			if plans[i].second {
				sp = shared2
			}
			for _, op := range plans[i].ops {
				env.results[i] = append(env.results[i], c17Do(sp, c17Ops[op], env, true))
			}
		}
		for _, op := range plans[i].ops {
			r.Probe("op=" + c17Ops[op])
		}
	}
	if signers >= 2 {
		r.Probe("two_first_signers")
	}
	st := runTasks(r, bodies, strategy)
	r.Steps += st.Yields
	if st.Preemptive {
		r.Probe("preemption")
		r.Fault("preemption")
	}
	workload := ""
	for i, p := range plans {
		workload += fmt.Sprintf("T%d[", i)
		for _, op := range p.ops {
			workload += c17Ops[op] + ","
		}
		workload += "]"
		if p.second {
			workload += "@2"
		}
	}
	r.Logf("strategy=%s tasks=%d workload=%s switches=%d yields=%d blocked=%d keycfg=%s", strategy, nTasks, workload, st.Switches, st.Yields, st.Blocked, o.KeyCfg())
	r.Shape(workload + "|" + st.Signature)
	r.Sample = obs("strategy", strategy, "workload", workload, "context_switches", st.Switches, "yields", st.Yields, "lock_waits", st.Blocked, "interleaving", st.Signature, "key_config", o.KeyCfg())
	ctx := obs("strategy", strategy, "workload", workload, "context_switches", st.Switches, "key_config", o.KeyCfg(), "algorithm", o.Cfg.SigAlg, "canonicalizer", o.Cfg.CanonName)
	if r.Harness != "" {
		return
	}
	if st.Deadlock {
		r.Fail("deadlock", "C17/deadlock", ctx)
		return
	}
	// (1) the race detector stayed silent
	if sz := raceLogSize(); sz > raceBefore {
		if rep := libraryRaces(raceLogTail(raceBefore)); rep != "" {
			ctx["race_report"] = trunc(rep, 3500)
			r.Fail("race", "C17/data-race/"+raceSummary(rep), ctx)
			return
		}
		r.Probe("race_report_on_harness_memory_ignored")
	}
	// (3) configuration untouched
	if snapAfter := c17Snapshot(shared); snapAfter != snapBefore {
		ctx["before"], ctx["after"] = trunc(snapBefore, 600), trunc(snapAfter, 600)
		r.Fail("purity", "C17/configuration-modified-by-calls", ctx)
		return
	}
	// (2)+(5)+(6) each task's results equal its solo execution on an identical fresh SP
	if ent.ForeignUsed() || ent.Ambiguous() {
		// a goroutine started by the library itself drew entropy: its identifiers cannot be attributed
		// to a task's stream, so bit-for-bit comparison with a solo run is not defined for this run
		r.Probe("library_goroutine_drew_entropy")
		return
	}
	// (4) arguments untouched, an identical second call gives the identical result (checked inside the operations)
	for i := range plans {
		for k, d := range env.results[i] {
			for _, marker := range []string{" ARGUMENT-MODIFIED", " SECOND-RESULT-DIFFERS"} {
				// (the signing operations hand their element to the signature library, which with an exclusive
				// canonicalizer re-orders attributes and moves namespace declarations of that element in place:
				// an equivalent document, and not something the property speaks about - it names validation)
				if marker == " ARGUMENT-MODIFIED" && !strings.HasPrefix(c17Ops[plans[i].ops[k]], "Validate") {
					continue
				}
				if strings.Contains(d, marker) {
					ctx["task"], ctx["op_index"], ctx["op"], ctx["result"] = i, k, c17Ops[plans[i].ops[k]], trunc(d, 1500)
					r.Fail("purity", "C17/"+strings.ToLower(strings.TrimSpace(marker))+"/"+c17Ops[plans[i].ops[k]], ctx)
					return
				}
			}
		}
	}
	for i := range plans {
		var fresh *saml2.SAMLServiceProvider
		if plans[i].second {
			fresh = mk2()
		} else {
			n, err := world.NewSPNode(o.Cfg, r.Sim.Time)
			if err != nil {
				r.HarnessError("rebuild: %v", err)
				return
			}
			fresh = n.SP
		}
		ent.Reset(i)
		ent.solo = i
		for k, op := range plans[i].ops {
			want := c17Do(fresh, c17Ops[op], env, false)
			if got := env.results[i][k]; got != want {
				ctx["task"], ctx["op_index"], ctx["op"] = i, k, c17Ops[op]
				ctx["concurrent"], ctx["solo"] = trunc(got, 1500), trunc(want, 1500)
				ctx["first_difference"] = firstDiff(got, want)
				r.Fail("solo-equivalence", "C17/result-differs-from-solo/"+c17Ops[op], ctx)
				return
			}
		}
	}
}

func firstDiff(a, b string) string {
	n := len(a)
	if len(b) < n {
		n = len(b)
	}
	for i := 0; i < n; i++ {
		if a[i] != b[i] {
			lo := i - 40
			if lo < 0 {
				lo = 0
			}
			return fmt.Sprintf("at %d: %q vs %q", i, trunc(a[lo:], 120), trunc(b[lo:], 120))
		}
	}
	return fmt.Sprintf("length %d vs %d", len(a), len(b))
}

// c17Snapshot is a deep snapshot of the exported configuration.
func c17Snapshot(sp *saml2.SAMLServiceProvider) string {
	var b strings.Builder
	fmt.Fprintf(&b, "%q %q %q %q %q %q %q %q %v %q %v %v %q %q %v %v %v %d ", sp.IdentityProviderSSOURL, sp.IdentityProviderSSOBinding, sp.IdentityProviderSLOURL, sp.IdentityProviderSLOBinding,
		sp.IdentityProviderIssuer, sp.AssertionConsumerServiceURL, sp.ServiceProviderSLOURL, sp.ServiceProviderIssuer, sp.SignAuthnRequests, sp.SignAuthnRequestsAlgorithm,
		sp.ForceAuthn, sp.IsPassive, sp.AudienceURI, sp.NameIdFormat, sp.ValidateEncryptionCert, sp.SkipSignatureValidation, sp.AllowMissingAttributes, sp.MaximumDecompressedBodySize)
	if sp.RequestedAuthnContext != nil {
		fmt.Fprintf(&b, "rc=%q %q ", sp.RequestedAuthnContext.Comparison, sp.RequestedAuthnContext.Contexts)
	}
	if sp.IDPCertificateStore != nil {
		cs, _ := sp.IDPCertificateStore.Certificates()
		for _, c := range cs {
			fmt.Fprintf(&b, "c=%x ", c.Raw[:16])
		}
	}
	fmt.Fprintf(&b, "ks=%p sks=%p clock=%p canon=%v", sp.SPKeyStore, sp.SPSigningKeyStore, sp.Clock, sp.SignAuthnRequestsCanonicalizer != nil)
	if c, err := sp.GetSigningCertBytes(); err == nil {
		fmt.Fprintf(&b, " sc=%s", hex.EncodeToString(c[:16]))
	}
	if c, err := sp.GetEncryptionCertBytes(); err == nil {
		fmt.Fprintf(&b, " ec=%s", hex.EncodeToString(c[:16]))
	}
	return b.String()
}

func docDigest(d *etree.Document, err error, scribble bool) string {
	if err != nil {
		return "ERR " + world.ErrClass(err) + " " + err.Error()
	}
	s, werr := d.WriteToString()
	if werr != nil {
		return "WERR " + werr.Error()
	}
	if scribble {
		// mutate the returned tree: later results must not be affected
		root := d.Root()
		root.CreateAttr("scribbled", "1")
		for _, c := range root.ChildElements() {
			c.SetText("scribble")
			c.CreateAttr("x", "y")
		}
	}
	return s
}

// c17Do runs one public operation and returns a digest of everything it returned.
func c17Do(sp *saml2.SAMLServiceProvider, op string, env *c17Env, scribble bool) (digest string) {
	o := world.Guard(func() error {
		switch op {
		case "BuildAuthRequest":
			s, err := sp.BuildAuthRequest()
			digest = s + errStr(err)
		case "BuildAuthRequestDocument":
			d, err := sp.BuildAuthRequestDocument()
			digest = docDigest(d, err, scribble)
		case "BuildAuthBodyPost":
			b, err := sp.BuildAuthBodyPost(env.relay)
			digest = string(b) + errStr(err)
			if scribble {
				for i := range b {
					b[i] = 'X'
				}
			}
		case "BuildAuthURL":
			s, err := sp.BuildAuthURL(env.relay)
			digest = s + errStr(err)
		case "BuildAuthURLRedirect":
			d, err := sp.BuildAuthRequestDocumentNoSig()
			if err != nil {
				digest = errStr(err)
				return nil
			}
			before, _ := d.WriteToString()
			s, err := sp.BuildAuthURLRedirect(env.relay, d)
			after, _ := d.WriteToString()
			digest = s + errStr(err)
			if before != after {
				digest += " ARGUMENT-MODIFIED"
			}
		case "BuildLogoutRequestDocument":
			d, err := sp.BuildLogoutRequestDocument("alice", "s1")
			digest = docDigest(d, err, scribble)
		case "BuildLogoutURLRedirect":
			d, err := sp.BuildLogoutRequestDocumentNoSig("alice", "s1")
			if err != nil {
				digest = errStr(err)
				return nil
			}
			before, _ := d.WriteToString()
			s, err := sp.BuildLogoutURLRedirect(env.relay, d)
			after, _ := d.WriteToString()
			digest = s + errStr(err)
			if before != after {
				digest += " ARGUMENT-MODIFIED"
			}
		case "BuildLogoutBodyPost":
			d, err := sp.BuildLogoutRequestDocument("alice", "s1")
			if err != nil {
				digest = errStr(err)
				return nil
			}
			b, err := sp.BuildLogoutBodyPostFromDocument(env.relay, d)
			digest = string(b) + errStr(err)
		case "BuildLogoutResponseDocument":
			d, err := sp.BuildLogoutResponseDocument(world.StatusOK, "_req1")
			digest = docDigest(d, err, scribble)
		case "BuildLogoutResponseBodyPost":
			d, err := sp.BuildLogoutResponseDocument(world.StatusOK, "_req1")
			if err != nil {
				digest = errStr(err)
				return nil
			}
			b, err := sp.BuildLogoutResponseBodyPostFromDocument("", d)
			digest = string(b) + errStr(err)
		case "SignAuthnRequest":
			d, err := sp.BuildAuthRequestDocumentNoSig()
			if err != nil {
				digest = errStr(err)
				return nil
			}
			before, _ := d.WriteToString()
			el, err := sp.SignAuthnRequest(d.Root())
			after, _ := d.WriteToString()
			if err != nil {
				digest = errStr(err)
			} else {
				nd := etree.NewDocument()
				nd.SetRoot(el)
				digest, _ = nd.WriteToString()
			}
			if before != after {
				digest += " ARGUMENT-MODIFIED"
			}
		case "SignLogoutRequest(held)", "SignLogoutResponse(held)", "SignAuthnRequest(held)":
			// the caller keeps the element it built and signs it twice; what the first call returned
			// is scribbled over in between: neither the held element nor the second result may change
			var d *etree.Document
			var err error
			sign := sp.SignAuthnRequest
			switch op {
			case "SignLogoutRequest(held)":
				d, err = sp.BuildLogoutRequestDocumentNoSig("alice", "s1")
				sign = sp.SignLogoutRequest
			case "SignLogoutResponse(held)":
				d, err = sp.BuildLogoutResponseDocumentNoSig(world.StatusOK, "_req1")
				sign = sp.SignLogoutResponse
			default:
				d, err = sp.BuildAuthRequestDocumentNoSig()
			}
			if err != nil {
				digest = errStr(err)
				return nil
			}
			ser := func(e *etree.Element) string {
				nd := etree.NewDocument()
				nd.SetRoot(e.Copy())
				x, _ := nd.WriteToString()
				return x
			}
			before := ser(d.Root())
			el1, err := sign(d.Root())
			if err != nil {
				digest = errStr(err)
				return nil
			}
			digest = ser(el1)
			first := digest
			if scribble {
				el1.CreateAttr("scribbled", "1")
				var walk func(e *etree.Element)
				walk = func(e *etree.Element) {
					for _, c := range e.ChildElements() {
						walk(c)
					}
					if len(e.ChildElements()) == 0 {
						e.SetText("scribble")
					}
					e.CreateAttr("x", "y")
				}
				walk(el1)
			}
			if ser(d.Root()) != before {
				digest += " ARGUMENT-MODIFIED"
			}
			el2, err := sign(d.Root())
			if err != nil {
				digest += errStr(err)
			} else if s2 := ser(el2); s2 != first {
				digest += " SECOND-RESULT-DIFFERS " + s2
			}
		case "SigningContext":
			c := sp.SigningContext()
			digest = fmt.Sprintf("sig=%s digest=%s c14n=%s", c.GetSignatureMethodIdentifier(), c.GetDigestAlgorithmIdentifier(), c.Canonicalizer.Algorithm())
		case "ValidateEncodedResponse":
			resp, err := sp.ValidateEncodedResponse(env.msgs["response"])
			digest = respDigest(resp, err, scribble)
		case "RetrieveAssertionInfo", "RetrieveAssertionInfo(assertion-signed)", "RetrieveAssertionInfo(encrypted)", "RetrieveAssertionInfo(damaged)", "RetrieveAssertionInfo(compressed)", "RetrieveAssertionInfo(compressed2)", "RetrieveAssertionInfo(encrypted-assertion-signed)":
			key := "response"
			if i := strings.Index(op, "("); i > 0 {
				key = op[i+1 : len(op)-1]
			}
			ai, err := sp.RetrieveAssertionInfo(env.msgs[key])
			if err != nil {
				digest = "ERR " + world.ErrClass(err) + " " + err.Error()
				return nil
			}
			digest = fmt.Sprintf("%q %q %v %s w=%s", ai.NameID, ai.SessionIndex, ai.ResponseSignatureValidated, world.J(ai.Values), world.J(ai.WarningInfo))
			for i := range ai.Assertions {
				digest += world.J(world.NormAssertion(&ai.Assertions[i]))
			}
			if scribble {
				for k := range ai.Values {
					delete(ai.Values, k)
				}
				ai.Values["scribble"] = types.Attribute{Name: "scribble"}
				if len(ai.Assertions) > 0 && ai.Assertions[0].Subject != nil && ai.Assertions[0].Subject.NameID != nil {
					ai.Assertions[0].Subject.NameID.Value = "scribble"
				}
			}
		case "ValidateEncodedLogoutRequestPOST":
			lr, err := sp.ValidateEncodedLogoutRequestPOST(env.msgs["logout-request"])
			if err != nil {
				digest = errStr(err)
			} else {
				digest = world.J(world.NormLogoutRequest(lr)) + fmt.Sprint(lr.SignatureValidated)
			}
		case "ValidateEncodedLogoutResponsePOST":
			lr, err := sp.ValidateEncodedLogoutResponsePOST(env.msgs["logout-response"])
			if err != nil {
				digest = errStr(err)
			} else {
				digest = world.J(world.NormLogoutResponse(lr)) + fmt.Sprint(lr.SignatureValidated)
			}
		case "DecodeUnverifiedBaseResponse":
			u, err := saml2.DecodeUnverifiedBaseResponse(env.msgs["assertion-signed"])
			if err != nil {
				digest = errStr(err)
			} else {
				digest = u.ID + "|" + u.Destination + "|" + u.Version
			}
		case "Metadata", "MetadataWithSLO":
			var md *types.EntityDescriptor
			var err error
			if op == "Metadata" {
				md, err = sp.Metadata()
			} else {
				md, err = sp.MetadataWithSLO(24)
			}
			if err != nil {
				digest = errStr(err)
				return nil
			}
			b, _ := xml.Marshal(md)
			digest = string(b)
			if scribble && md.SPSSODescriptor != nil {
				d := md.SPSSODescriptor
				for i := range d.KeyDescriptors {
					for j := range d.KeyDescriptors[i].EncryptionMethods {
						d.KeyDescriptors[i].EncryptionMethods[j].Algorithm = "scribble"
					}
					for j := range d.KeyDescriptors[i].KeyInfo.X509Data.X509Certificates {
						d.KeyDescriptors[i].KeyInfo.X509Data.X509Certificates[j].Data = "scribble"
					}
				}
				for i := range d.AssertionConsumerServices {
					d.AssertionConsumerServices[i].Location = "scribble"
				}
				md.EntityID = "scribble"
			}
		case "GetSigningCertBytes":
			c, err := sp.GetSigningCertBytes()
			digest = hex.EncodeToString(c) + errStr(err)
		case "Validate(decoded)", "Validate(decoded,refused)":
			resp := env.decoded[map[bool]string{true: "refused", false: "ok"}[strings.HasSuffix(op, "refused)")]]
			before := world.J(world.NormResponse(resp))
			err := sp.Validate(resp)
			digest = "validate:" + errStr(err)
			if world.J(world.NormResponse(resp)) != before {
				digest += " ARGUMENT-MODIFIED"
			}
			if err2 := sp.Validate(resp); errStr(err2) != errStr(err) {
				digest += " SECOND-RESULT-DIFFERS " + errStr(err2)
			}
		}
		return nil
	})
	if o.Panic != "" {
		return "PANIC " + o.Panic
	}
	return digest
}

func errStr(err error) string {
	if err == nil {
		return ""
	}
	return " ERR " + world.ErrClass(err) + " " + err.Error()
}

func respDigest(resp *types.Response, err error, scribble bool) string {
	if err != nil {
		return "ERR " + world.ErrClass(err) + " " + err.Error()
	}
	d := world.J(world.NormResponse(resp)) + fmt.Sprint(resp.SignatureValidated)
	for i := range resp.Assertions {
		d += fmt.Sprint(resp.Assertions[i].SignatureValidated)
	}
	if scribble {
		resp.ID = "scribble"
		if len(resp.Assertions) > 0 {
			a := &resp.Assertions[0]
			a.ID = "scribble"
			if a.Subject != nil && a.Subject.NameID != nil {
				a.Subject.NameID.Value = "scribble"
			}
			if a.AttributeStatement != nil && len(a.AttributeStatement.Attributes) > 0 {
				a.AttributeStatement.Attributes[0].Name = "scribble"
			}
		}
	}
	return d
}
