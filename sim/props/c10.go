package props

import (
	"errors"
	"fmt"
	"strings"
	"time"

	"github.com/beevik/etree"
	saml2 "github.com/russellhaering/gosaml2"
	"github.com/russellhaering/gosaml2/types"

	"verifsim/core"
	"verifsim/world"
)

// C10 — logout messages: addressing, issuer, version, status checked; honest signed flag.
// Both message kinds, IdP conforming or wrong in one respect, signing state from
// {unsigned, trusted, untrusted, tampered, wrapped, relocated signature}, kind confusion
// between endpoints, raw or compressed, checking on or off, issuer configured or not.

var c10Faults = []string{"none", "version-wrong", "version-absent", "destination-wrong", "issuer-missing", "issuer-wrong", "status-missing", "statuscode-missing", "status-nonsuccess", "status-nested-partiallogout-under-failure",
	// no saml:Issuer, but an element called Issuer from a namespace that is not SAML's carrying the expected value
	"issuer-only-foreign-ns"}
var c10Signing = []string{"trusted", "unsigned", "untrusted", "tampered", "wrapped-new-id", "wrapped-same-id", "relocated-signature", "foreign-signature"}
var c10Kinds = []string{"LogoutRequest", "LogoutResponse", "misroute:Response-at-SLO", "misroute:request-as-response", "misroute:response-as-request", "misroute:logout-at-ACS"}

func init() {
	register(&Prop{
		ID:    "C10",
		Level: "exploration",
		Rule: "seeded federation runs of both logout flows: message kind x IdP fault (version, destination, issuer missing/wrong, status missing/non-success) x signing state (trusted, unsigned, untrusted, tampered, wrapped with new/same ID, relocated signature, foreign signature) x checking on/off x issuer configured or not x raw/DEFLATE, " +
			"plus kind confusion between endpoints; oracle: accept => logout reference model holds on the returned structure; single fault => typed error naming it; flag false with checking off, otherwise true iff the root's own signature is honoured and then every returned field equals the issue-log unit; distinct = shape hash of those knobs and the outcome",
		Directed:   c10Directed,
		Run:        func(r *core.Run) { r.Tape.Int(1, "c04.flow"); logoutAdversarial(r, "C10") },
		MustHit:    []string{"kind=LogoutRequest", "kind=LogoutResponse", "misroute", "signing=untrusted", "signing=tampered", "signing=wrapped-new-id", "signing=wrapped-same-id", "signing=relocated-signature", "signing=foreign-signature", "skip_config", "issuer_unconfigured", "compressed", "nonconforming_idp", "slo_url_unconfigured", "validate_decoded_called_directly"},
		RandomRuns: map[string]int{"quick": 8000, "thorough": 80000},
	})
}

// draw order: (flow), skip, kind, signing, fault, issuerCfg
func c10Directed(tier string) [][]uint64 {
	var out [][]uint64
	for skip := uint64(0); skip < 2; skip++ {
		for kind := uint64(0); kind < uint64(len(c10Kinds)); kind++ {
			for sg := uint64(0); sg < uint64(len(c10Signing)); sg++ {
				for f := uint64(0); f < uint64(len(c10Faults)); f++ {
					if f != 0 && sg > 1 {
						continue
					}
					for ic := uint64(0); ic < 2; ic++ {
						if tier == "quick" && (skip+kind+sg+f+ic)%3 != 0 {
							continue
						}
						out = append(out, []uint64{0, skip, []uint64{0, 4, 8, 9, 10, 11}[kind], sg, f, ic})
					}
				}
			}
		}
	}
	return out
}

func logoutAdversarial(r *core.Run, prop string) {
	t := r.Tape
	skip := t.Int(2, "c10.skip") == 1
	kv := t.Int(12, "c10.kind") // 0..3 LogoutRequest, 4..7 LogoutResponse, 8..11 the four misroutes
	kindSel := c10Kinds[map[bool]int{true: kv / 4, false: kv - 6}[kv < 8]]
	signing := c10Signing[t.Int(len(c10Signing), "c10.signing")]
	fi := t.Int(len(c10Faults)+6, "c10.fault")
	if fi >= len(c10Faults) {
		fi = 0
	}
	fault := c10Faults[fi]
	issuerCfg := t.Int(2, "c10.issuercfg") == 0
	sloUnset := t.Int(6, "c10.slounset") == 1 // the SP has no single-logout URL configured: only an absent Destination is acceptable

	s := NewStd(r)
	s.DrawLive()
	s.DrawClockKnobs()
	s.Cfg.SkipSig = skip
	if skip {
		r.Probe("skip_config")
	}
	if !issuerCfg {
		s.Cfg.IdPIssuer = ""
		r.Probe("issuer_unconfigured")
	}
	if sloUnset {
		s.Cfg.SLO = ""
		r.Probe("slo_url_unconfigured")
	}
	// (an SP key, so that the other API calls of the ambient traffic - metadata, signed requests - work)
	s.Cfg.EncStyle, s.Cfg.EncKeyIdx = world.KeyField, 4
	s.Cfg.EncCert = world.MintCert(4, s.Epoch.Add(-40*24*time.Hour), s.Epoch.Add(800*24*time.Hour), 1)
	if !s.Build() {
		return
	}
	now := s.Node.Now()
	attKey := 6
	attCert := world.MintCert(attKey, s.Epoch.Add(-time.Hour), s.Epoch.Add(10*365*24*time.Hour), 0)

	// what is minted, and where it is delivered
	mint, endpoint := kindSel, kindSel
	switch kindSel {
	case "misroute:Response-at-SLO":
		mint, endpoint = "Response", []string{"LogoutRequest", "LogoutResponse"}[t.Int(2, "c10.ep")]
	case "misroute:request-as-response":
		mint, endpoint = "LogoutRequest", "LogoutResponse"
	case "misroute:response-as-request":
		mint, endpoint = "LogoutResponse", "LogoutRequest"
	case "misroute:logout-at-ACS":
		mint, endpoint = []string{"LogoutRequest", "LogoutResponse"}[t.Int(2, "c10.ep")], "Response"
	}
	misroute := mint != endpoint
	if misroute {
		r.Fault("misroute")
		fault = "none"
	} else {
		r.Probe("kind=" + kindSel)
	}
	var m *world.LResponse
	if mint == "Response" {
		m = world.GenResponse(t, s.IdP, s.Fed, now, 1, false)
		m.Destination = strp(s.Fed.SLO)
	} else {
		m = world.GenLogout(t, s.IdP, s.Fed, now, mint)
	}
	if mint != "LogoutResponse" && (fault == "status-missing" || fault == "statuscode-missing" || fault == "status-nonsuccess" || fault == "status-nested-partiallogout-under-failure") {
		fault = "none"
	}
	switch fault {
	case "version-wrong":
		m.Version = []string{"1.1", "2.00", "2"}[t.Int(3, "c10.version")]
	case "version-absent":
		m.Version = ""
	case "destination-wrong":
		m.Destination = strp([]string{"https://other-sp.example/slo", s.Fed.SLO + "/", s.Fed.ACS, strings.ToUpper(s.Fed.SLO), " " + s.Fed.SLO, s.Fed.SLO + " ", s.Fed.SLO + "\n"}[t.Int(7, "c10.dest")])
	case "issuer-missing":
		m.Issuer = nil
	case "issuer-only-foreign-ns":
		m.Issuer, m.ForeignIssuer = nil, strp(s.Fed.IdPIssuer)
	case "issuer-wrong":
		good := s.Fed.IdPIssuer
		m.Issuer = strp([]string{"https://evil-idp.example/meta", " " + good, good + " ", "\n\t" + good + "\n", good + "/", strings.ToUpper(good), good + "\u00a0", "x" + good}[t.Int(8, "c10.issuer")])
	case "status-missing":
		m.HasStatus = false
	case "statuscode-missing":
		m.HasStatusCode = false
	case "status-nonsuccess":
		m.StatusCode = []string{"urn:oasis:names:tc:SAML:2.0:status:Requester", "urn:oasis:names:tc:SAML:2.0:status:PartialLogout", ""}[t.Int(3, "c10.status")]
	case "status-nested-partiallogout-under-failure":
		m.StatusCode = []string{"urn:oasis:names:tc:SAML:2.0:status:Responder", "urn:oasis:names:tc:SAML:2.0:status:Requester"}[t.Int(2, "c10.status")]
		m.SubStatusCode = strp([]string{"urn:oasis:names:tc:SAML:2.0:status:PartialLogout", world.StatusOK}[t.Int(2, "c10.substatus")])
	}
	if sloUnset && !misroute && m.Destination != nil && *m.Destination != "" {
		if fault == "none" {
			fault = "destination-wrong" // addressed to an endpoint this SP does not have
		} else if fault != "destination-wrong" {
			m.Destination = nil // one fault at a time
		}
	}
	if fault != "none" {
		r.Fault("nonconforming_idp")
	}
	r.Probe("signing=" + signing)
	signKey, signCert := s.IdPKey, s.IdPCert
	switch signing {
	case "unsigned":
	case "untrusted":
		signKey, signCert = attKey, attCert
		fallthrough
	default:
		if t.Chance(700, "c10.plainsig") {
			m.Sign = world.PlainSigOpts(signKey, signCert)
		} else {
			m.Sign = world.DrawSigOpts(t, signKey, signCert)
		}
	}
	lay := world.DrawLayout(t)
	xml, err := s.IdP.Issue(m, lay, r.Sim.Now())
	if err != nil {
		r.HarnessError("issue: %v", err)
		return
	}
	genuine := world.ExpectLogout(m)
	rootSigned := m.Sign != nil // the delivered root carries its own signature
	honoured := signing == "trusted"
	evil := false
	switch signing {
	case "tampered":
		nx, ok := tamperInstant(xml, m.ID)
		if !ok {
			r.HarnessError("tamper failed")
			return
		}
		xml = nx
		r.Fault("tamper_signed_content")
	case "wrapped-new-id", "wrapped-same-id":
		// evil unsigned root around the genuine signed message
		d := etree.NewDocument()
		if err := d.ReadFromString(xml); err != nil {
			r.HarnessError("parse: %v", err)
			return
		}
		root := d.Root()
		ev := root.Copy()
		for _, c := range ev.ChildElements() {
			if c.Tag == "Signature" {
				ev.RemoveChild(c)
			}
		}
		if signing == "wrapped-new-id" {
			ev.CreateAttr("ID", "_evil")
		}
		if n := ev.FindElement("./NameID"); n != nil {
			n.SetText("mallory")
		}
		ev.CreateAttr("InResponseTo", "_evil_irt")
		pfx := root.Space
		if pfx != "" {
			pfx += ":"
		}
		ext := etree.NewElement(pfx + "Extensions")
		ext.AddChild(root.Copy())
		ev.InsertChildAt(1, ext)
		d2 := etree.NewDocument()
		d2.SetRoot(ev)
		xml, _ = d2.WriteToString()
		rootSigned, honoured, evil = false, false, true
		r.Fault("wrap")
	case "relocated-signature":
		// the genuine signature moved one level down (under Extensions) and the content edited
		d := etree.NewDocument()
		d.ReadFromString(xml)
		root := d.Root()
		var sig *etree.Element
		for _, c := range root.ChildElements() {
			if c.Tag == "Signature" {
				sig = c
			}
		}
		if sig != nil {
			root.RemoveChild(sig)
			pfx := root.Space
			if pfx != "" {
				pfx += ":"
			}
			ext := etree.NewElement(pfx + "Extensions")
			ext.AddChild(sig)
			root.InsertChildAt(1, ext)
			if t.Bool("c10.reloc.edit") {
				root.CreateAttr("InResponseTo", "_evil_irt")
				evil = true
			}
		}
		xml, _ = d.WriteToString()
		rootSigned = true // a signature referencing the root is still in the document
		honoured = !evil  // moved but intact content: the library may honour or reject it; only the edited form is decided
		r.Fault("relocate_signature")
	case "foreign-signature":
		// a Signature child taken from another genuine message (different ID)
		other := world.GenLogout(t, s.IdP, s.Fed, now, mint)
		if mint == "Response" {
			other = world.GenResponse(t, s.IdP, s.Fed, now, 1, false)
		}
		other.Sign = world.PlainSigOpts(s.IdPKey, s.IdPCert)
		ox, err := s.IdP.Issue(other, world.Layout{}, r.Sim.Now())
		if err != nil {
			r.HarnessError("issue other: %v", err)
			return
		}
		od := etree.NewDocument()
		od.ReadFromString(ox)
		var osig *etree.Element
		for _, c := range od.Root().ChildElements() {
			if c.Tag == "Signature" {
				osig = c
			}
		}
		d := etree.NewDocument()
		d.ReadFromString(xml)
		root := d.Root()
		for _, c := range root.ChildElements() {
			if c.Tag == "Signature" {
				root.RemoveChild(c)
			}
		}
		root.InsertChildAt(1, osig.Copy())
		if n := root.FindElement("./NameID"); n != nil {
			n.SetText("mallory")
		}
		xml, _ = d.WriteToString()
		rootSigned, honoured, evil = false, false, true
		r.Fault("foreign_signature")
	case "untrusted":
		honoured = false
	}
	compress := t.Int(3, "c10.compress") == 1
	if compress {
		r.Probe("compressed")
	}
	enc := world.Present(xml, compress, 6)
	r.Sim.Advance(time.Duration(t.Int(30, "c10.delay")) * time.Second)
	switch t.Int(5, "c10.ambient") {
	case 1:
		s.NeighbourNoise(enc)
	case 2:
		OtherAPICalls(r, s.Node.SP, 7)
	}

	var out world.Outcome
	var got world.NLogout
	flag := false
	switch endpoint {
	case "LogoutRequest":
		lr, o := s.Node.LogoutRequest(enc)
		out = o
		if o.OK() {
			got, flag = world.NormLogoutRequest(lr), lr.SignatureValidated
		}
	case "LogoutResponse":
		lr, o := s.Node.LogoutResponse(enc)
		out = o
		if o.OK() {
			got, flag = world.NormLogoutResponse(lr), lr.SignatureValidated
		}
	default:
		_, o := s.Node.ValidateResponse(enc)
		out = o
	}
	r.Steps++
	r.Logf("mint=%s endpoint=%s signing=%s fault=%s skip=%v issuerCfg=%v compress=%v -> %s %s flag=%v", mint, endpoint, signing, fault, skip, issuerCfg, compress, out.Class(), world.ErrClass(out.Err), flag)
	r.Shape(fmt.Sprintf("%s>%s.%s.%s.sk%v.ic%v.c%v.%s.%s.f%v", mint, endpoint, signing, fault, skip, issuerCfg, compress, lay.Sig(), out.Class(), flag))
	r.Sample = obs("minted", mint, "endpoint", endpoint, "signing", signing, "fault", fault, "skip", skip, "issuer_configured", issuerCfg, "outcome", out.Class(), "flag", flag)
	if out.Panic != "" {
		return
	}
	ctx := obs("minted", mint, "endpoint", endpoint, "signing", signing, "fault", fault, "skip", skip, "issuer_configured", issuerCfg, "compressed", compress, "err", fmt.Sprint(out.Err), "delivered", trunc(xml, 2000))

	// the exported ValidateDecodedLogout* called directly on a message the application decoded itself
	if !misroute && (signing == "trusted" || signing == "unsigned") && t.Int(4, "c10.direct") == 1 {
		var derr error
		decoded := false
		do := world.Guard(func() error {
			if endpoint == "LogoutRequest" {
				lr := &saml2.LogoutRequest{}
				if derr = world.AppDecode(xml, lr); derr != nil {
					return nil
				}
				decoded = true
				return s.Node.SP.ValidateDecodedLogoutRequest(lr)
			}
			lr := &types.LogoutResponse{}
			if derr = world.AppDecode(xml, lr); derr != nil {
				return nil
			}
			decoded = true
			return s.Node.SP.ValidateDecodedLogoutResponse(lr)
		})
		if decoded && do.Panic == "" {
			r.Steps++
			r.Probe("validate_decoded_called_directly")
			dctx := obs("entry", "ValidateDecoded"+endpoint, "fault", fault, "issuer_configured", issuerCfg, "slo_unset", sloUnset, "err", fmt.Sprint(do.Err))
			viol := fault != "none" && !(fault == "issuer-wrong" && !issuerCfg)
			if viol {
				c10CheckFault(r, prop+"/direct", fault, do, dctx)
			} else if !do.OK() {
				r.Fail("completeness", prop+"/direct/conforming-rejected/"+world.ErrClass(do.Err), dctx)
			}
			if r.Failed() {
				return
			}
		}
	}
	// ---- oracle
	if errors.Is(out.Err, world.ErrNilResult) {
		// neither a result nor an error: the caller is told nothing was wrong
		r.Fail("kind", prop+"/nil-result-without-error/"+mint+"-at-"+endpoint, ctx)
		return
	}
	if misroute {
		if out.OK() {
			r.Fail("kind", prop+"/wrong-kind-accepted/"+mint+"-at-"+endpoint, ctx)
		}
		return
	}
	if out.OK() {
		ctx["returned"] = world.J(got)
		// accept => reference model
		if why := logoutModel(got, s.Cfg, endpoint); why != "" {
			r.Fail("soundness", prop+"/accepted-but-model-rejects/"+why, ctx)
			return
		}
		// honest flag
		if skip && flag {
			r.Fail("flags", prop+"/flag-true-with-checking-off/"+endpoint, ctx)
			return
		}
		if flag {
			ok := false
			for i := range s.IdP.Log {
				u := &s.IdP.Log[i]
				if u.Kind == endpoint && u.Logout != nil && unitHonoured(u, s.Cfg.Store.Certs, s.Node.Now()) && logoutFieldsEqual(got, *u.Logout) {
					ok = true
				}
			}
			if !ok {
				r.Fail("flags", prop+"/flag-true-but-not-an-honoured-signed-unit/"+signing, ctx)
				return
			}
		}
		if !skip && !flag && signing == "trusted" && fault == "none" {
			r.Fail("flags", prop+"/flag-false-for-honoured-root-signature", ctx)
			return
		}
	}
	if skip {
		// signatures are not looked at: only the profile checks decide
		if fault == "none" && !out.OK() {
			r.Fail("completeness", prop+"/conforming-rejected/skip/"+world.ErrClass(out.Err), ctx)
		}
		if fault != "none" && !(fault == "issuer-wrong" && !issuerCfg) {
			c10CheckFault(r, prop, fault, out, ctx)
		}
		return
	}
	// checking on: a root signature that is present but not honoured is fatal
	if rootSigned && !honoured && (signing != "relocated-signature" || evil) && out.OK() {
		r.Fail("never-downgrade", prop+"/bad-root-signature-accepted/"+signing, ctx)
		return
	}
	if signing == "relocated-signature" && evil && out.OK() && flag {
		r.Fail("flags", prop+"/edited-content-reported-validated", ctx)
		return
	}
	if fault != "none" && !(fault == "issuer-wrong" && !issuerCfg) && (signing == "trusted" || signing == "unsigned") {
		c10CheckFault(r, prop, fault, out, ctx)
		return
	}
	if fault == "none" || (fault == "issuer-wrong" && !issuerCfg) {
		if (signing == "trusted" || signing == "unsigned") && !out.OK() {
			r.Fail("completeness", prop+"/conforming-rejected/"+signing+"/"+world.ErrClass(out.Err), ctx)
			return
		}
		if signing == "trusted" && out.OK() && !logoutFieldsEqual(got, genuine) {
			r.Fail("faithful", prop+"/validated-fields-differ", ctx)
		}
	}
}

func c10CheckFault(r *core.Run, prop, fault string, out world.Outcome, ctx map[string]any) {
	if out.OK() {
		r.Fail("reject", prop+"/fault-accepted/"+fault, ctx)
		return
	}
	exp := map[string][]errSpec{
		"version-wrong":      {{"invalid", []string{"version"}}},
		"version-absent":     {{"invalid", []string{"version"}}},
		"destination-wrong":  {{"invalid", []string{"destination"}}},
		"issuer-missing":     {{"missing", []string{"issuer"}}},
		"issuer-wrong":       {{"invalid", []string{"issuer"}}},
		"status-missing":     {{"missing", []string{"status"}}},
		"statuscode-missing": {{"missing", []string{"statuscode"}}},
		"status-nonsuccess":  {{"invalid", []string{"statuscode", "status"}}},
		"status-nested-partiallogout-under-failure": {{"invalid", []string{"statuscode", "status"}}},
		// the message is malformed as well (an element the schema has no place for): any rejection will do
		"issuer-only-foreign-ns": {{"any", nil}},
	}[fault]
	if !errMatches(out.Err, exp) {
		ctx["class"] = world.ErrClass(out.Err)
		r.Fail("typed-error", prop+"/wrong-error/"+fault+"/"+world.ErrClass(out.Err), ctx)
	}
}

func logoutModel(g world.NLogout, cfg *world.SPConfig, kind string) string {
	if g.Version != "2.0" {
		return "Version"
	}
	if g.Destination != "" && g.Destination != cfg.SLO {
		return "Destination"
	}
	if g.Issuer == nil {
		return "Issuer-missing"
	}
	if cfg.IdPIssuer != "" && *g.Issuer != cfg.IdPIssuer {
		return "Issuer"
	}
	if kind == "LogoutResponse" && (g.StatusCode == nil || *g.StatusCode != world.StatusOK) {
		return "Status"
	}
	return ""
}

func logoutFieldsEqual(a, b world.NLogout) bool {
	return a.ID == b.ID && a.InResponseTo == b.InResponseTo && a.Destination == b.Destination && world.J(a.Issuer) == world.J(b.Issuer) && world.J(a.NameID) == world.J(b.NameID)
}
