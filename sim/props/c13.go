package props

import (
	"bytes"
	"encoding/base64"
	"fmt"

	"github.com/russellhaering/gosaml2/types"
	dsig "github.com/russellhaering/goxmldsig"

	"verifsim/core"
	"verifsim/world"
)

// C13 — outgoing enveloped signatures verify after serialisation with the configured key.
// The IdP stub bootstraps trust only from what the SP publishes (GetSigningCertBytes /
// Metadata), receives the serialised message through a conforming XML front end, verifies
// the enveloped signature and checks placement, algorithms and embedded certificate.

func init() {
	register(&Prop{
		ID:    "C13",
		Level: "exploration",
		Rule: "seeded SP->IdP runs: key configuration (encryption / signing key by none, field, TLS field, setter, both, both-with-different-field-key; RSA or ECDSA signer) x signature algorithm (default or each supported) x canonicaliser (default or each supported) x message kind (AuthnRequest string/document, LogoutRequest, LogoutResponse) x configuration and argument strings from the hostile pool (markup, whitespace incl. CR/LF/TAB, non-ASCII) x {first use, cached context, after restart}; " +
			"the strict receiver parses with XML attribute-value normalisation, verifies with goxmldsig against the reported and published certificate, and checks Reference target, declared methods, embedded certificate and position right after Issuer; distinct = shape hash (key config, algorithm, canonicaliser, kind, phase, string classes, outcome)",
		Directed:   c13Directed,
		Run:        c13Run,
		MustHit:    []string{"enc=setter", "sig=field", "sig=setter", "sig=none", "ec_signer", "alg_configured", "canon_configured", "kind=AuthnRequest", "kind=LogoutRequest", "kind=LogoutResponse", "phase=cached", "phase=restart", "hostile_strings", "value_with_CR", "sign_requests_off", "neighbour_sp_sharing_key_store_objects_signs", "signing_key_unavailable_during_build"},
		RandomRuns: map[string]int{"quick": 6000, "thorough": 50000},
		Assumptions: []string{"ECDSA signatures are verified with the same goxmldsig verifier the library's users would use; their octet encoding versus other XML-DSig stacks is a dependency matter",
			"only algorithm / key-type combinations the signing library supports are configured"},
	})
}

// draw order: encstyle, sigstyle, ecsigner, alg, canon, (std...), then kind etc. come later:
// the directed prefix forces the first five and relies on seeded draws for the rest.
func c13Directed(tier string) [][]uint64 {
	var out [][]uint64
	for es := uint64(0); es < 7; es++ {
		for ss := uint64(0); ss < 7; ss++ {
			for alg := uint64(0); alg < 5; alg++ {
				for cn := uint64(0); cn < 7; cn++ {
					if tier == "quick" && (es*5+ss*3+alg+cn)%7 != 0 {
						continue
					}
					out = append(out, []uint64{es, ss, (es + ss + alg) % 4, alg, cn})
				}
			}
		}
	}
	return out
}

func c13Run(r *core.Run) {
	t := r.Tape
	o := DrawOut(r, 0, false)
	shared := t.Int(3, "c13.sharedstore") == 1
	if shared {
		o.Cfg.SharedKeyStores = &world.SharedKS{}
	}
	// the signer (setter-configured keys) or the key store (field-configured keys) is unavailable during
	// one build: the build must fail, or deliver a fully valid message, and the next build must be sound
	outage := t.Int(5, "c13.outage") == 1
	usesSetter := func(k world.KeyStyle) bool {
		return k == world.KeySetter || k == world.KeyBoth || k == world.KeyBothDiffer || k == world.KeyBothDifferTLS
	}
	signStyle := o.SigStyle
	if signStyle == world.KeyNone {
		signStyle = o.EncStyle
	}
	if outage && usesSetter(signStyle) {
		o.Cfg.SignerFault = &world.FaultCtl{}
	}
	if !o.PreHistory(r) || !o.Build() {
		return
	}
	if t.Int(5, "c13.otherapi") == 1 {
		OtherAPICalls(r, o.Node.SP, 1)
	}
	kind := outKinds[t.Int(3, "c13.kind")]
	phase := []string{"first-use", "cached", "restart"}[t.Int(3, "c13.phase")]
	// a neighbour service provider that was handed the very same key-store objects but is configured
	// with another signature algorithm and canonicaliser; it signs before (and between) the measured calls
	var neighbour *world.SPNode
	neighbourSigns := func() {
		if neighbour == nil {
			return
		}
		world.Guard(func() error {
			neighbour.SP.BuildAuthRequest()
			neighbour.SP.BuildLogoutRequestDocument("neighbour", "n1")
			neighbour.SP.BuildLogoutResponseDocument(world.StatusOK, "_n")
			return nil
		})
		r.Fault("neighbour_sp_sharing_key_store_objects_signs")
	}
	if shared {
		cfgN := *o.Cfg
		cfgN.Reuse, cfgN.Live, cfgN.Name = nil, false, "neighbour"
		algs := world.RSASigAlgs
		if world.Key(o.WantSignKey).EC != nil {
			algs = world.ECSigAlgs
		}
		cfgN.SigAlg = algs[(1+t.Int(len(algs)-1, "c13.neighbour.alg"))%len(algs)]
		if cfgN.SigAlg == o.WantSigAlg {
			cfgN.SigAlg = algs[len(algs)-1]
		}
		nc := world.C14NAlgs[t.Int(len(world.C14NAlgs), "c13.neighbour.canon")]
		if nc == o.WantC14N {
			nc = world.C14NAlgs[(t.Int(len(world.C14NAlgs), "c13.neighbour.canon2")+1)%len(world.C14NAlgs)]
		}
		cfgN.Canon, cfgN.CanonName = world.CanonFor(nc, ""), nc
		cfgN.SignRequests = true
		cfgN.SPIssuer, cfgN.ACS = "https://neighbour.example/meta", "https://neighbour.example/acs"
		nn, err := world.NewSPNode(&cfgN, r.Sim.Time)
		if err != nil {
			r.HarnessError("neighbour: %v", err)
			return
		}
		neighbour = nn
		neighbourSigns()
	}
	if t.Int(3, "c13.signrequests") == 1 {
		// request signing switched off: AuthnRequests go out unsigned, logout messages are still
		// signed and must still honour the configured algorithm and canonicaliser
		o.Cfg.SignRequests = false
		if !o.Build() {
			return
		}
		if kind == "AuthnRequest" {
			kind = outKinds[1+t.Int(2, "c13.logoutkind")]
		}
		r.Probe("sign_requests_off")
	}
	r.Probe("enc=" + o.EncStyle.String())
	r.Probe("sig=" + o.SigStyle.String())
	r.Probe("kind=" + kind)
	r.Probe("phase=" + phase)
	if world.Key(o.WantSignKey).EC != nil {
		r.Probe("ec_signer")
	}
	if o.AlgName != "" {
		r.Probe("alg_configured")
	}
	if o.CanonName != "" {
		r.Probe("canon_configured")
	}
	hostile := o.Hostile
	if hostile {
		r.Probe("hostile_strings")
	}
	switch phase {
	case "cached":
		o.BuildOut(r, outKinds[t.Int(3, "c13.warmkind")], true, false)
		neighbourSigns()
		if !shared && t.Int(2, "c13.rotate") == 1 {
			o.RotateFieldSigningStore(r)
		}
	case "restart":
		o.BuildOut(r, kind, true, false)
		if !o.Build() {
			return
		}
		r.Fault("sp_restart")
	}
	if outage {
		var fks *world.FieldKeyStore
		switch {
		case o.Cfg.SignerFault != nil:
			o.Cfg.SignerFault.Fail = true
		case signStyle == world.KeyField:
			if o.SigStyle == world.KeyNone {
				fks, _ = o.Node.SP.SPKeyStore.(*world.FieldKeyStore)
			} else {
				fks, _ = o.Node.SP.SPSigningKeyStore.(*world.FieldKeyStore)
			}
			if fks != nil {
				fks.Err = world.ErrSignerFault
			}
		}
		if o.Cfg.SignerFault != nil || fks != nil {
			fm, fo := o.BuildOut(r, kind, true, false)
			r.Fault("signing_key_unavailable_during_build")
			r.Steps++
			if fo.Panic != "" {
				r.Fail("produce", "C13/build-panicked-when-signing-key-unavailable/"+o.KeyCfg(), obs("panic", fo.Panic, "kind", kind, "key_config", o.KeyCfg()))
				return
			}
			if fo.OK() {
				// nil error: then the message must be as good as any other signed message
				bad := ""
				if d, err := world.ConformingParse([]byte(fm.XML)); err != nil {
					bad = "not well-formed"
				} else if f := world.ReadSigFacts(d.Root()); !f.Present {
					bad = "unsigned message returned without error"
				} else if err := world.VerifyEnveloped(d.Root(), o.WantSignCert.DER, o.Node.Clock.Dsig()); err != nil {
					bad = "signature does not verify: " + err.Error()
				}
				if bad != "" {
					r.Fail("produce", "C13/signing-failure-swallowed/"+kind, obs("kind", kind, "key_config", o.KeyCfg(), "problem", bad, "produced", trunc(fm.XML, 1500)))
					return
				}
			}
			if o.Cfg.SignerFault != nil {
				o.Cfg.SignerFault.Fail = false
			}
			if fks != nil {
				fks.Err = nil
			}
		}
	}
	m, out := o.BuildOut(r, kind, true, hostile)
	r.Steps++
	ctx := obs("key_config", o.KeyCfg(), "sign_key", world.Key(o.WantSignKey).Name, "algorithm", o.AlgName, "canonicalizer", o.CanonName, "kind", kind, "via", m.Via, "phase", phase, "produced", trunc(m.XML, 2500))
	shape := fmt.Sprintf("%s.%s.%s.%s.%s.h%v", o.KeyCfg(), o.AlgName, o.CanonName, kind, phase, hostile)
	r.Sample = obs("key_config", o.KeyCfg(), "algorithm", o.WantSigAlg, "canonicalizer", o.WantC14N, "kind", kind, "via", m.Via, "phase", phase, "hostile", hostile, "outcome", out.Class())
	if out.Panic != "" {
		ctx["panic"] = out.Panic
		r.Shape(shape + ".panic")
		r.Fail("produce", "C13/build-panicked/"+o.KeyCfg(), ctx)
		return
	}
	if !out.OK() {
		ctx["err"] = fmt.Sprint(out.Err)
		r.Shape(shape + ".error")
		r.Fail("produce", "C13/build-failed/"+o.KeyCfg(), ctx)
		return
	}
	for _, v := range []string{o.Cfg.SPIssuer, o.Cfg.IdPSSOURL, o.Cfg.IdPSLOURL, o.Cfg.ACS, m.NameID, m.SessionIdx, m.ReqID, m.Status} {
		if bytes.ContainsRune([]byte(v), '\r') {
			r.Probe("value_with_CR")
		}
	}
	// the IdP bootstraps trust from what the SP reports / publishes
	reported, err := o.Node.SP.GetSigningCertBytes()
	if err != nil {
		ctx["err"] = fmt.Sprint(err)
		r.Fail("publish", "C13/no-signing-certificate-reported/"+o.KeyCfg(), ctx)
		return
	}
	d, err := world.ConformingParse([]byte(m.XML))
	if err != nil {
		ctx["err"] = fmt.Sprint(err)
		r.Fail("wellformed", "C13/output-not-wellformed", ctx)
		return
	}
	root := d.Root()
	f := world.ReadSigFacts(root)
	r.Logf("sp built %s via %s keycfg=%s alg=%q canon=%q phase=%s hostile=%v", kind, m.Via, o.KeyCfg(), o.AlgName, o.CanonName, phase, hostile)
	r.Shape(shape + ".ok")
	if !f.Present || f.Count != 1 {
		ctx["signatures"] = f.Count
		r.Fail("placement", "C13/signature-missing-or-multiple", ctx)
		return
	}
	if !f.AfterIssuer || f.IndexInParent != 1 {
		ctx["index"] = f.IndexInParent
		r.Fail("placement", "C13/signature-not-immediately-after-issuer", ctx)
		return
	}
	if f.RefURI != "#"+root.SelectAttrValue("ID", "") {
		ctx["uri"] = f.RefURI
		r.Fail("reference", "C13/reference-does-not-target-root", ctx)
		return
	}
	if f.SigMethod != o.WantSigAlg {
		ctx["declared"], ctx["want"] = f.SigMethod, o.WantSigAlg
		r.Fail("algorithm", "C13/signature-method-not-as-configured", ctx)
		return
	}
	wantTransforms := []string{string(dsig.EnvelopedSignatureAltorithmId), o.WantC14N}
	if f.C14NMethod != o.WantC14N || len(f.Transforms) != 2 || f.Transforms[0] != wantTransforms[0] || f.Transforms[1] != wantTransforms[1] {
		ctx["declared_c14n"], ctx["transforms"], ctx["want"] = f.C14NMethod, f.Transforms, o.WantC14N
		r.Fail("algorithm", "C13/canonicalizer-not-as-configured", ctx)
		return
	}
	if !bytes.Equal(reported, o.WantSignCert.DER) {
		ctx["reported"] = base64.StdEncoding.EncodeToString(reported[:min(40, len(reported))])
		r.Fail("certificate", "C13/reported-signing-certificate-is-not-the-configured-one/"+o.KeyCfg(), ctx)
		return
	}
	if len(f.Certs) == 0 || !bytes.Equal(f.Certs[0], reported) {
		r.Fail("certificate", "C13/embedded-certificate-differs-from-reported/"+o.KeyCfg(), ctx)
		return
	}
	clk := o.Node.Clock.Dsig()
	if err := world.VerifyEnveloped(root, reported, clk); err != nil {
		ctx["err"] = fmt.Sprint(err)
		sig := "C13/signature-does-not-verify/" + o.KeyCfg()
		if hostile {
			sig = "C13/signature-does-not-verify/hostile-strings"
			if hasCRTabLF(o, m) {
				sig += "/CR-TAB-LF"
			}
		}
		r.Fail("verify", sig, ctx)
		return
	}
	// what the metadata (both variants) publishes as signing key is the same certificate
	for vi, variant := range []func() (*types.EntityDescriptor, error){o.Node.SP.Metadata, func() (*types.EntityDescriptor, error) { return o.Node.SP.MetadataWithSLO(24) }} {
		var md *types.EntityDescriptor
		mo := world.Guard(func() error {
			var err error
			md, err = variant()
			return err
		})
		if mo.OK() && md != nil && md.SPSSODescriptor != nil {
			pub := ""
			for _, kd := range md.SPSSODescriptor.KeyDescriptors {
				if kd.Use == "signing" && len(kd.KeyInfo.X509Data.X509Certificates) > 0 {
					pub = kd.KeyInfo.X509Data.X509Certificates[0].Data
				}
			}
			if pub == "" && len(reported) > 0 {
				// the SP signs (this message verifies under the reported certificate) but its metadata
				// publishes no signing key at all
				ctx["sign_requests"] = o.Cfg.SignRequests
				r.Fail("certificate", fmt.Sprintf("C13/metadata-publishes-no-signing-certificate/%s/sign-requests=%v", []string{"Metadata", "MetadataWithSLO"}[vi], o.Cfg.SignRequests), ctx)
				return
			}
			if pub != "" && pub != base64.StdEncoding.EncodeToString(reported) {
				r.Fail("certificate", fmt.Sprintf("C13/metadata-signing-certificate-differs/%s/%s", []string{"Metadata", "MetadataWithSLO"}[vi], o.KeyCfg()), ctx)
				return
			}
		}
	}
}

func min(a, b int) int {
	if a < b {
		return a
	}
	return b
}

func hasCRTabLF(o *Out, m *OutMsg) bool {
	vals := []string{o.Cfg.SPIssuer, o.Cfg.IdPIssuer, o.Cfg.IdPSSOURL, o.Cfg.IdPSLOURL, o.Cfg.ACS, o.Cfg.NameIDFormat, m.NameID, m.SessionIdx, m.ReqID, m.Status}
	if o.Cfg.ReqCtx != nil {
		vals = append(vals, o.Cfg.ReqCtx.Comparison)
		vals = append(vals, o.Cfg.ReqCtx.Contexts...)
	}
	for _, v := range vals {
		for _, c := range v {
			if c == '\r' || c == '\n' || c == '\t' {
				return true
			}
		}
	}
	return false
}
