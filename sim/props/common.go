// Package props holds one scenario profile + oracle per property.
package props

import (
	"crypto/rsa"
	"crypto/x509"
	"encoding/base64"
	"fmt"
	"net/url"
	"strings"
	"time"
	_ "time/tzdata"

	saml2 "github.com/russellhaering/gosaml2"

	"verifsim/core"
	"verifsim/world"
)

// Prop is the registration record of one property check.
type Prop struct {
	ID          string
	Level       string // exploration | fault_enumeration
	Rule        string // how cases are generated and what makes one distinct / non-trivial
	Engine      string // fed | conc
	Directed    func(tier string) [][]uint64
	Run         func(r *core.Run)
	MustHit     []string // simulator-side probes/faults the directed prefix must reach
	Assumptions []string
	Real        []string
	Stub        []string
	// RandomRuns is the number of seeded exploration runs after the directed prefix.
	RandomRuns map[string]int
}

var Registry = map[string]*Prop{}

func register(p *Prop) {
	if p.Engine == "" {
		p.Engine = "fed"
	}
	if len(p.Real) == 0 {
		p.Real = []string{"gosaml2 (root, types, uuid) from the current tree", "goxmldsig v1.5.0", "etree v1.5.0", "xml-roundtrip-validator", "Go crypto, encoding/xml, compress/flate, html/template"}
	}
	if len(p.Stub) == 0 {
		p.Stub = []string{"IdP (issuer and strict receiver)", "browser", "router", "adversary", "transport", "clock", "entropy source", "key and certificate stores"}
	}
	Registry[p.ID] = p
}

// Std is the standard small federation used by most profiles: one IdP, one SP under
// test, an epoch decades away from real time.
type Std struct {
	R     *core.Run
	T     *core.Tape
	Fed   world.Fed
	IdP   *world.IdP
	Epoch time.Time

	IdPKey  int
	IdPCert *world.Cert
	Cfg     *world.SPConfig
	Node    *world.SPNode
}

var locPool = []*time.Location{
	time.UTC,
	time.FixedZone("plus0530", 5*3600+1800),
	time.FixedZone("minus0800", -8*3600),
	time.FixedZone("plus1345", 13*3600+45*60),
	mustLoc("America/New_York"), // zones with daylight-saving transitions (tzdata is embedded)
	mustLoc("Europe/Berlin"),
	mustLoc("Australia/Lord_Howe"),
}

func mustLoc(name string) *time.Location {
	l, err := time.LoadLocation(name)
	if err != nil {
		panic(err)
	}
	return l
}

// nextTransition returns the first instant after from at which loc's UTC offset changes
// (zero time if none within 400 days).
func nextTransition(loc *time.Location, from time.Time) time.Time {
	if loc == nil || loc == time.UTC || !strings.Contains(loc.String(), "/") {
		return time.Time{} // UTC and fixed zones have no transitions
	}
	_, off := from.In(loc).Zone()
	t := from
	for i := 0; i < 400*24; i++ {
		n := t.Add(time.Hour)
		if _, o := n.In(loc).Zone(); o != off {
			// binary search inside the hour
			lo, hi := t, n
			for hi.Sub(lo) > time.Second {
				mid := lo.Add(hi.Sub(lo) / 2)
				if _, om := mid.In(loc).Zone(); om != off {
					hi = mid
				} else {
					lo = mid
				}
			}
			return hi.Truncate(time.Second)
		}
		t = n
	}
	return time.Time{}
}

// DrawEpoch places simulated time between 2001 and 2089, never near real time, so any
// code reading the wall clock instead of the injected one is exposed.
func DrawEpoch(t *core.Tape) time.Time {
	y := 2001 + t.Int(89, "epoch.year")
	if y >= 2024 && y <= 2028 {
		y += 20
	}
	d := t.Int(365*86400, "epoch.sec")
	return time.Date(y, 1, 1, 0, 0, 0, 0, time.UTC).Add(time.Duration(d) * time.Second)
}

func NewStd(r *core.Run) *Std {
	t := r.Tape
	s := &Std{R: r, T: t, Fed: world.DefaultFed}
	s.Epoch = DrawEpoch(t)
	r.Sim.Epoch = s.Epoch
	s.IdP = &world.IdP{Name: "i"}
	s.IdPKey = t.Int(4, "idp.key") // RSA-2048 keys 0..3 are IdP keys by convention
	s.IdPCert = world.MintCert(s.IdPKey, s.Epoch.Add(-10*365*24*time.Hour), s.Epoch.Add(10*365*24*time.Hour), 0)
	s.Cfg = &world.SPConfig{
		Name:      "sp1",
		IdPSSOURL: "https://idp.example/sso", IdPSLOURL: "https://idp.example/slo",
		IdPIssuer: s.Fed.IdPIssuer, ACS: s.Fed.ACS, SLO: s.Fed.SLO, SPIssuer: s.Fed.SPIssuer, Audience: s.Fed.Audience,
		Store: &world.SimCertStore{Certs: []*world.Cert{s.IdPCert}},
	}
	return s
}

// DrawClockKnobs draws skew and location of the SP node.
func (s *Std) DrawClockKnobs() {
	t := s.T
	s.Cfg.Loc = locPool[t.Int(len(locPool), "sp.loc")]
	if t.Bool("sp.skewed") {
		s.Cfg.Skew = time.Duration(t.Range(-7200, 7200, "sp.skew")) * time.Second
	}
}

// DrawLive decides (from the tape) whether this run uses the long-lived SP instance of the
// worker process, re-configured in place, instead of a fresh one.
func (s *Std) DrawLive() {
	if s.T.Int(3, "sp.live") == 1 {
		s.Cfg.Live = true
		s.R.Fault("long_lived_sp_reconfigured")
	}
}

func (s *Std) Build() bool {
	n, err := world.NewSPNode(s.Cfg, s.R.Sim.Time)
	if err != nil {
		s.R.HarnessError("build sp: %v", err)
		return false
	}
	s.Node = n
	s.Cfg.Reuse = nil // a later Build is a restart: fresh instance
	return true
}

// Placement of IdP signatures on a Response.
const (
	PlaceResponse = iota
	PlaceAssertions
	PlaceBoth
	PlaceNone // unsigned message for an SP that skips signature validation
)

var placeNames = []string{"R", "A", "RA", "none"}

// ApplyPlacement sets the signing options of m for the placement; plain=true uses the
// plain signature style, otherwise a drawn one.
func (s *Std) ApplyPlacement(m *world.LResponse, place int, plain bool) {
	mk := func() *world.SigOpts {
		if plain {
			return world.PlainSigOpts(s.IdPKey, s.IdPCert)
		}
		return world.DrawSigOpts(s.T, s.IdPKey, s.IdPCert)
	}
	if place == PlaceResponse || place == PlaceBoth {
		m.Sign = mk()
	}
	if place == PlaceAssertions || place == PlaceBoth {
		for _, a := range m.Assertions {
			a.Sign = mk()
			a.Sign.EmptyURI = false // URI="" denotes the document root, never an inner assertion
		}
	}
}

func offClass(d time.Duration) string {
	switch {
	case d == 0:
		return "=0"
	case d > 0:
		return ">0"
	}
	return "<0"
}

func obs(kv ...any) map[string]any {
	m := map[string]any{}
	for i := 0; i+1 < len(kv); i += 2 {
		m[fmt.Sprint(kv[i])] = kv[i+1]
	}
	return m
}

func trunc(s string, n int) string {
	if len(s) > n {
		return s[:n] + "…"
	}
	return s
}

func parseCert(der []byte) (*x509.Certificate, error) { return x509.ParseCertificate(der) }

func rsaPub(c *x509.Certificate) (*rsa.PublicKey, bool) {
	p, ok := c.PublicKey.(*rsa.PublicKey)
	return p, ok
}

func decodeB64(s string) ([]byte, error) { return base64.StdEncoding.DecodeString(s) }

func urlUnescape(s string) (string, error) { return url.QueryUnescape(s) }

// NeighbourNoise performs the same delivery on a second SP instance with a different
// configuration (other endpoint, issuer, audience, empty store) and ignores the outcome:
// nothing the library keeps at package level may leak between instances.
func (s *Std) NeighbourNoise(enc string) {
	cfg := *s.Cfg
	cfg.Live = false
	cfg.Name = "neighbour"
	cfg.ACS = "https://neighbour.example/acs"
	cfg.SLO = "https://neighbour.example/slo"
	cfg.IdPIssuer = "https://neighbour-idp.example/meta"
	cfg.Audience = "https://neighbour.example/meta"
	cfg.Store = &world.SimCertStore{}
	cfg.SkipSig = !s.Cfg.SkipSig
	n, err := world.NewSPNode(&cfg, s.R.Sim.Time)
	if err != nil {
		return
	}
	n.Retrieve(enc)
	n.LogoutResponse(enc)
	s.decoyTraffic(n, len(enc))
	s.R.Fault("neighbour_instance_traffic")
}

// decoyTraffic: the neighbour is also sent somebody else's messages that it has to turn down in the
// middle of decoding them - a login Response misrouted to the logout endpoints and to the logout
// pre-decoder, a logout response misrouted to the consumer endpoint, and a login Response in which one
// assertion's AuthnInstant is not a dateTime. They are complete where the message under test may be lean
// (subject "mallory@decoy.example", foreign audience, one-time use, proxy restriction): nothing of them may
// surface anywhere afterwards.
func (s *Std) decoyTraffic(nb *world.SPNode, salt int) {
	dt := core.NewGenTape(uint64(salt)*2654435761+17, nil)
	idp := &world.IdP{Name: "decoy"}
	now := nb.Now()
	fed := s.Fed
	fed.Audience = "https://decoy-audience.example/meta"
	m := world.GenResponse(dt, idp, fed, now, 3, true)
	for _, a := range m.Assertions {
		a.HasSubject, a.NameID = true, strp("mallory@decoy.example")
		a.OneTimeUse = true
		a.Proxy = &world.LProxy{Count: 7, Audiences: []string{"https://decoy-proxy.example"}}
	}
	whole, err := idp.Issue(m, world.Layout{}, 0)
	if err != nil {
		return
	}
	bad := m.Assertions[salt%3]
	if bad.Authn == nil {
		bad.Authn = &world.LAuthn{SessionIndex: "decoy"}
	}
	bad.Authn.AuthnInstant = strp("the day before yesterday")
	broken, err := idp.Issue(m, world.Layout{}, 0)
	if err != nil {
		return
	}
	lo := world.GenLogout(dt, idp, fed, now, "LogoutResponse")
	lox, err := idp.Issue(lo, world.Layout{}, 0)
	if err != nil {
		return
	}
	lq := world.GenLogout(dt, idp, fed, now, "LogoutRequest")
	lq.NameID = strp("mallory@decoy.example")
	lqx, err := idp.Issue(lq, world.Layout{}, 0)
	if err != nil {
		return
	}
	skip := *nb.Cfg
	skip.SkipSig, skip.Name = true, "neighbour-unchecked"
	nodes := []*world.SPNode{nb}
	if n2, err := world.NewSPNode(&skip, s.R.Sim.Time); err == nil {
		nodes = append(nodes, n2)
	}
	for _, n := range nodes {
		n.Retrieve(world.Present(broken, false, 6))
		n.LogoutResponse(world.Present(whole, false, 6))
		n.LogoutRequest(world.Present(whole, false, 6))
		world.Guard(func() error { _, e := saml2.DecodeUnverifiedLogoutResponse(world.Present(whole, false, 6)); return e })
		n.ValidateResponse(world.Present(lox, false, 6))
		n.LogoutRequest(world.Present(lox, false, 6))
		n.LogoutResponse(world.Present(lqx, false, 6))
		world.Guard(func() error { _, e := saml2.DecodeUnverifiedBaseResponse(world.Present(lox, false, 6)); return e })
	}
}

// WarmUpThenReconfigure lets the live SP first serve a delivery under a different
// configuration (other endpoint, issuer, audience) and then switches its exported fields
// to the configuration under test: nothing may be remembered from before the switch.
func (s *Std) WarmUpThenReconfigure(enc string) {
	sp := s.Node.SP
	acs, slo, iss, aud := sp.AssertionConsumerServiceURL, sp.ServiceProviderSLOURL, sp.IdentityProviderIssuer, sp.AudienceURI
	sp.AssertionConsumerServiceURL, sp.ServiceProviderSLOURL = "https://old-sp.example/acs", "https://old-sp.example/slo"
	sp.IdentityProviderIssuer, sp.AudienceURI = "https://old-idp.example/meta", "https://old-sp.example/meta"
	s.Node.Retrieve(enc)
	sp.AssertionConsumerServiceURL, sp.ServiceProviderSLOURL, sp.IdentityProviderIssuer, sp.AudienceURI = acs, slo, iss, aud
	s.R.Fault("sp_reconfigured_live")
}

// OtherAPICalls lets the application use the SP for other things before the call under test: it asks for
// both metadata variants and the certificates (what&1), builds (and drops) an unsigned message of every kind
// (what&2), asks for the signing context and a redirect URL (what&4). None of that is configuration: what the
// SP answers afterwards is what it would have answered anyway.
func OtherAPICalls(r *core.Run, sp *saml2.SAMLServiceProvider, what int) {
	if what&1 != 0 {
		world.Guard(func() error { _, e := sp.Metadata(); return e })
		world.Guard(func() error { _, e := sp.MetadataWithSLO(24); return e })
		world.Guard(func() error { _, e := sp.GetSigningCertBytes(); return e })
		world.Guard(func() error { _, e := sp.GetEncryptionCertBytes(); return e })
	}
	if what&2 != 0 {
		world.Guard(func() error { _, e := sp.BuildAuthRequestDocumentNoSig(); return e })
		world.Guard(func() error { _, e := sp.BuildLogoutRequestDocumentNoSig("someone", "s0"); return e })
		world.Guard(func() error { _, e := sp.BuildLogoutResponseDocumentNoSig(saml2.StatusCodeSuccess, "_r0"); return e })
	}
	if what&4 != 0 {
		world.Guard(func() error { sp.SigningContext(); return nil })
		world.Guard(func() error { _, e := sp.BuildAuthURL("rs"); return e })
	}
	r.Fault("other_api_calls_on_the_same_sp_first")
}
