package props

import (
	"crypto/aes"
	"crypto/cipher"
	"crypto/tls"
	"encoding/base64"
	"encoding/xml"
	"fmt"
	"reflect"
	"strings"
	"time"

	"github.com/beevik/etree"
	saml2 "github.com/russellhaering/gosaml2"
	"github.com/russellhaering/gosaml2/types"

	"verifsim/core"
	"verifsim/world"
)

// C09 — every decoding entry point is total: any input yields a result or an error.
//
// Families: (corrupt) in-flight corruption of genuine messages of every kind — truncation
// and single-bit flips at drawn/enumerated offsets of the XML, the base64 text and the
// DEFLATE stream — delivered to every inbound entry point; (cipher) hostile ciphertext
// lengths and paddings under every algorithm identifier, hostile wrapped keys, called
// directly and through an unsigned Response; (shape) deep / wide / mixed documents and
// degenerate SP configurations (empty store, no keys, no clock, failing stores).

var c09Families = []string{"corrupt", "cipher", "shape", "mutate"}
var c09Corrupt = []string{"truncate-xml", "bitflip-xml", "truncate-b64", "bitflip-b64", "truncate-deflate", "bitflip-deflate", "delete-byte-xml", "insert-byte-xml"}
var c09DataAlgIDs = []string{types.MethodAES128GCM, types.MethodAES192GCM, types.MethodAES256GCM, types.MethodAES128CBC, types.MethodAES256CBC, types.MethodTripleDESCBC, "urn:unknown", ""}
var c09CipherKinds = []string{"length-sweep", "cbc-last-byte", "cbc-all-zero", "wrapped-key-length", "wrapped-key-size", "bad-base64", "missing-parts", "cbc-pad-then-zeros", "cbc-random-blocks", "algorithm-dictionary", "x509data-variants"}
var c09Cfgs = []string{"normal", "bare(empty-store,no-keys,nil-clock)", "failing-store", "skip-signature", "no-keys", "validate-enc-cert+garbage-cert", "limit=maxint64", "limit=negative", "validate-enc-cert+empty-cert",
	"tls-store-empty-chain", "validate-enc-cert+tls-store-empty-chain", "validate-enc-cert+tls-store-nil-chain", "tls-store-zero-value", "validate-enc-cert+tls-store-zero-value", "validate-enc-cert+tls-store-empty-leaf", "setter-key-without-certificate", "validate-enc-cert+setter-key-without-certificate"}

// identifiers from the XML Encryption 1.0/1.1, XML Signature and RFC 6931 vocabularies (not only
// the ones the library exports): a hostile sender may name any of them
var c09DigestURIs = []string{
	"http://www.w3.org/2000/09/xmldsig#sha1", "http://www.w3.org/2001/04/xmlenc#sha256", "http://www.w3.org/2001/04/xmlenc#sha512",
	"http://www.w3.org/2001/04/xmldsig-more#sha224", "http://www.w3.org/2001/04/xmldsig-more#sha384", "http://www.w3.org/2001/04/xmlenc#ripemd160",
	"http://www.w3.org/2001/04/xmldsig-more#md5", "http://www.w3.org/2007/05/xmldsig-more#sha3-224", "http://www.w3.org/2007/05/xmldsig-more#sha3-256",
	"http://www.w3.org/2007/05/xmldsig-more#sha3-384", "http://www.w3.org/2007/05/xmldsig-more#sha3-512", "http://www.w3.org/2007/05/xmldsig-more#whirlpool",
	"http://www.w3.org/2001/04/xmlenc#sha384", "http://www.w3.org/2000/09/xmldsig#md5", "urn:unknown-digest", "", " ", "sha256", "SHA1",
}
var c09KeyTransportURIs = []string{
	types.MethodRSAOAEP, types.MethodRSAOAEP2, types.MethodRSAv1_5, "http://www.w3.org/2009/xmlenc11#rsa-oaep", "http://www.w3.org/2001/04/xmlenc#kw-aes128", "http://www.w3.org/2001/04/xmlenc#kw-aes256",
	"http://www.w3.org/2001/04/xmlenc#kw-tripledes", "http://www.w3.org/2001/04/xmlenc#dh", "http://www.w3.org/2009/xmlenc11#ECDH-ES", "urn:unknown-transport", "",
}
var c09BlockURIs = []string{
	types.MethodAES128GCM, types.MethodAES192GCM, types.MethodAES256GCM, types.MethodAES128CBC, types.MethodAES256CBC, types.MethodTripleDESCBC,
	"http://www.w3.org/2001/04/xmlenc#aes192-cbc", "http://www.w3.org/2001/04/xmlenc#des-cbc", "http://www.w3.org/2009/xmlenc11#aes128-gcm ", "urn:unknown", "",
}
var c09MGFURIs = []string{"", "http://www.w3.org/2009/xmlenc11#mgf1sha1", "http://www.w3.org/2009/xmlenc11#mgf1sha256", "http://www.w3.org/2009/xmlenc11#mgf1sha512", "urn:unknown-mgf"}

const c09Bases = 8

func init() {
	register(&Prop{
		ID:    "C09",
		Level: "fault_enumeration",
		Rule: "in-flight corruption enumerated over offsets of genuine messages of every kind (truncate / bit-flip / delete / insert on XML, base64 and DEFLATE bytes) into all six inbound entry points; hostile ciphertext grid (every length 0..80 per algorithm identifier incl. 3DES / unknown / empty, CBC final block with every last-byte value and all-zero content, wrapped keys of every length 0..260 and of wrong key sizes, bad base64, missing parts) called directly (DecryptBytes, Decrypt, DecryptSymmetricKey) and through an unsigned Response; " +
			"deep/wide/mixed documents; SP configurations normal / bare / failing store / skip / no keys; oracle: the call returns, pointer results obey exactly-one-of(result, error), no panic or fatal exit; distinct = shape hash (family, kind, base, offset bucket, config, outcome classes)",
		Directed:   c09Directed,
		Run:        c09Run,
		MustHit:    []string{"family=corrupt", "family=cipher", "family=shape", "family=mutate", "truncate", "bitflip", "cipher=length-sweep", "cipher=cbc-last-byte", "cipher=cbc-all-zero", "cipher=wrapped-key-length", "cipher=cbc-pad-then-zeros", "cfg=bare(empty-store,no-keys,nil-clock)", "cfg=failing-store", "cfg=validate-enc-cert+garbage-cert", "cfg=limit=maxint64", "cfg=limit=negative", "cfg=validate-enc-cert+tls-store-empty-chain", "cfg=tls-store-zero-value", "cfg=setter-key-without-certificate", "cipher=algorithm-dictionary", "cipher=x509data-variants", "via_unsigned_response", "deep_document", "lean_genuine_message"},
		RandomRuns: map[string]int{"quick": 2500, "thorough": 150000},
		Assumptions: []string{"stack exhaustion / fatal runtime errors are caught through the worker crash journal and reported as violations",
			"for []byte results (DecryptBytes) an empty plaintext with nil error is a legitimate result; the exactly-one rule is applied to pointer results"},
	})
}

// draw order: family, kind, base, cfg, p1 (offset / length / value), p2
func c09Directed(tier string) [][]uint64 {
	var out [][]uint64
	step := uint64(1)
	if tier == "quick" {
		step = 41
	}
	// corruption: offsets enumerated (p1 is reduced modulo the actual length)
	for kind := uint64(0); kind < uint64(len(c09Corrupt)); kind++ {
		for base := uint64(0); base < c09Bases; base++ {
			for off := uint64(0); off < 6000; off += step {
				if tier == "quick" && (off/step+kind+base)%3 != 0 {
					continue
				}
				out = append(out, []uint64{0, kind, base, (kind + base + off) % 2 * 3 % 5, off + (kind*7+base*3)%step, off % 8})
			}
		}
	}
	// cipher grid
	for alg := uint64(0); alg < uint64(len(c09DataAlgIDs)); alg++ {
		for l := uint64(0); l <= 80; l++ {
			out = append(out, []uint64{1, 0, alg, l % 2, l, 0})
		}
		for v := uint64(0); v < 256; v++ {
			if tier == "quick" && v > 40 && v%16 != 0 && v < 250 {
				continue
			}
			out = append(out, []uint64{1, 1, alg, 0, v, v % 3})
		}
		for l := uint64(0); l < 6; l++ {
			out = append(out, []uint64{1, 2, alg, 0, l, 0})
		}
		if alg >= 3 && alg <= 5 {
			for kv := uint64(0); kv < 17*24; kv++ {
				if tier == "quick" && kv%3 != alg%3 {
					continue
				}
				out = append(out, []uint64{1, 7, alg, 0, kv, kv % 2})
			}
		}
	}
	for ka := uint64(0); ka < 5; ka++ {
		for l := uint64(0); l <= 260; l++ {
			if tier == "quick" && l > 20 && l%16 != 0 && l < 250 {
				continue
			}
			out = append(out, []uint64{1, 3, ka, 0, l, 0})
		}
		for sz := uint64(0); sz < 40; sz++ {
			out = append(out, []uint64{1, 4, ka, 0, sz, sz % 5})
		}
	}
	for k := uint64(5); k < 7; k++ {
		for v := uint64(0); v < 12; v++ {
			out = append(out, []uint64{1, k, v % 8, v % 2, v, 0})
		}
	}
	// algorithm identifiers from the standards vocabulary in every place, X509Data variants
	for p := uint64(0); p < uint64(len(c09KeyTransportURIs)*len(c09DigestURIs)); p++ {
		if tier == "quick" && p%uint64(len(c09KeyTransportURIs)) > 2 && p%7 != 0 {
			continue
		}
		out = append(out, []uint64{1, 9, p % uint64(len(c09BlockURIs)), p % 2 * 4, p, p % 10})
	}
	for v := uint64(0); v < 14; v++ {
		out = append(out, []uint64{1, 10, 0, v % 2 * 5 % 9, v, v % 2})
	}
	// structure-aware mutations of every base
	for base := uint64(0); base < c09Bases; base++ {
		for i := uint64(0); i < 60; i++ {
			if tier == "quick" && i >= 12 {
				break
			}
			out = append(out, []uint64{3, i % 3, base, i % 5, i*7919 + base, i})
		}
	}
	// degenerate configurations against hostile ciphertexts, corrupted and compressed messages
	for cfg := uint64(5); cfg < uint64(len(c09Cfgs)); cfg++ {
		for k := uint64(0); k < uint64(len(c09CipherKinds)); k++ {
			out = append(out, []uint64{1, k, k % 8, cfg, 3 + k*5, k})
		}
		for k := uint64(0); k < uint64(len(c09Corrupt)); k++ {
			for base := uint64(0); base < c09Bases; base++ {
				out = append(out, []uint64{0, k, base, cfg, 100 + 37*k + 11*base, k})
			}
		}
	}
	// shapes
	for sh := uint64(0); sh < 8; sh++ {
		for cfg := uint64(0); cfg < uint64(len(c09Cfgs)); cfg++ {
			out = append(out, []uint64{2, sh, 0, cfg, sh * 3, 0})
		}
	}
	// genuine lean messages: every combination of missing optional parts, first-and-later / later-only, normal and skip configuration
	for mask := uint64(1); mask < 64; mask++ {
		if tier == "quick" && mask > 8 && mask&(mask-1) != 0 && mask%5 != 0 {
			continue
		}
		for _, cfg := range []uint64{0, 3} {
			out = append(out, []uint64{2, 8, 0, cfg, mask, mask % 4})
		}
	}
	return out
}

// c09Base builds one of the fixed genuine base messages (independent of the run's tape so
// that offset enumeration covers one document consistently).
func c09Base(s *Std, idx int, spKey int, spCert *world.Cert, now time.Time) (xml string, kind string, err error) {
	bt := core.NewGenTape(uint64(7000+idx), nil)
	idp := &world.IdP{Name: fmt.Sprintf("b%d", idx)}
	var m *world.LResponse
	switch idx % c09Bases {
	case 0:
		m = world.GenResponse(bt, idp, s.Fed, now, 1, false)
		m.Sign = world.PlainSigOpts(s.IdPKey, s.IdPCert)
	case 1:
		m = world.GenResponse(bt, idp, s.Fed, now, 2, true)
		for _, a := range m.Assertions {
			a.Sign = world.PlainSigOpts(s.IdPKey, s.IdPCert)
		}
	case 2:
		m = world.GenResponse(bt, idp, s.Fed, now, 1, true)
		m.Sign = world.DrawSigOpts(bt, s.IdPKey, s.IdPCert)
		for _, a := range m.Assertions {
			a.Sign = world.DrawSigOpts(bt, s.IdPKey, s.IdPCert)
			a.Sign.EmptyURI = false
		}
	case 3:
		m = world.GenResponse(bt, idp, s.Fed, now, 1, false)
		m.Sign = world.PlainSigOpts(s.IdPKey, s.IdPCert)
		m.Assertions[0].Encrypt = world.DrawEncOpts(bt, &world.Key(spKey).RSA.PublicKey, spCert.DER)
	case 4:
		m = world.GenResponse(bt, idp, s.Fed, now, 1, false)
		m.Assertions[0].Sign = world.PlainSigOpts(s.IdPKey, s.IdPCert)
		m.Assertions[0].Encrypt = world.DrawEncOpts(bt, &world.Key(spKey).RSA.PublicKey, nil)
	case 5:
		m = world.GenLogout(bt, idp, s.Fed, now, "LogoutRequest")
		m.Sign = world.PlainSigOpts(s.IdPKey, s.IdPCert)
	case 6:
		m = world.GenLogout(bt, idp, s.Fed, now, "LogoutResponse")
		m.Sign = world.PlainSigOpts(s.IdPKey, s.IdPCert)
	default:
		m = world.GenResponse(bt, idp, s.Fed, now, 1, false) // unsigned
	}
	lay := world.Layout{}
	if idx%3 == 2 {
		lay = world.DrawLayout(bt)
	}
	x, e := idp.Issue(m, lay, 0)
	return x, m.Kind, e
}

type c09Call struct {
	name string
	out  world.Outcome
	nilR bool // result pointer is nil
}

// callAll delivers enc to every inbound entry point, twice in a row on the same live SP
// (an identical second call must be as total as the first).
func c09CallAll(n *world.SPNode, enc string) []c09Call {
	cs := c09CallOnce(n, enc)
	for _, c := range c09CallOnce(n, enc) {
		if c.out.Panic != "" || (c.out.Err == nil) == c.nilR {
			c.name += "(second identical call)"
			cs = append(cs, c)
		}
	}
	return cs
}

func c09CallOnce(n *world.SPNode, enc string) []c09Call {
	var cs []c09Call
	add := func(name string, f func() (bool, error)) {
		var isNil bool
		o := world.Guard(func() error {
			var err error
			isNil, err = f()
			return err
		})
		cs = append(cs, c09Call{name, o, isNil})
	}
	add("ValidateEncodedResponse", func() (bool, error) { r, e := n.SP.ValidateEncodedResponse(enc); return r == nil, e })
	add("RetrieveAssertionInfo", func() (bool, error) { r, e := n.SP.RetrieveAssertionInfo(enc); return r == nil, e })
	add("DecodeUnverifiedBaseResponse", func() (bool, error) { r, e := saml2.DecodeUnverifiedBaseResponse(enc); return r == nil, e })
	add("DecodeUnverifiedLogoutResponse", func() (bool, error) { r, e := saml2.DecodeUnverifiedLogoutResponse(enc); return r == nil, e })
	add("ValidateEncodedLogoutRequestPOST", func() (bool, error) { r, e := n.SP.ValidateEncodedLogoutRequestPOST(enc); return r == nil, e })
	add("ValidateEncodedLogoutResponsePOST", func() (bool, error) { r, e := n.SP.ValidateEncodedLogoutResponsePOST(enc); return r == nil, e })
	return cs
}

func c09Judge(r *core.Run, family, kind string, cs []c09Call, ctx map[string]any) string {
	classes := ""
	for _, c := range cs {
		classes += c.out.Class()[:1]
		if r.Failed() {
			continue
		}
		cc := map[string]any{"entry_point": c.name}
		for k, v := range ctx {
			cc[k] = v
		}
		switch {
		case c.out.Panic != "":
			cc["panic"] = c.out.Panic
			cc["frame"] = c.out.PanicTop
			r.Fail("total", fmt.Sprintf("C09/panic/%s/%s/%s", strings.TrimSpace(c.out.PanicTop), family, kind), cc)
		case c.out.Err == nil && c.nilR:
			r.Fail("exactly-one", "C09/nil-result-and-nil-error/"+c.name, cc)
		case c.out.Err != nil && !c.nilR:
			r.Fail("exactly-one", "C09/result-and-error/"+c.name, cc)
		}
	}
	return classes
}

func c09Run(r *core.Run) {
	t := r.Tape
	family := c09Families[t.Int(len(c09Families), "c09.family")]
	kindRaw := t.Int(64, "c09.kind")
	baseRaw := t.Int(64, "c09.base")
	cfgSel := t.Int(len(c09Cfgs), "c09.cfg")
	p1 := t.Int(1<<20, "c09.p1")
	p2 := t.Int(1<<16, "c09.p2")

	s := NewStd(r)
	s.DrawLive()
	spKey := 4
	spCert := world.MintCert(spKey, s.Epoch.Add(-time.Hour), s.Epoch.Add(100*time.Hour), 1)
	cfgName := c09Cfgs[cfgSel]
	s.Cfg.EncStyle, s.Cfg.EncKeyIdx, s.Cfg.EncCert = world.KeyField, spKey, spCert
	s.Cfg.AllowMissing = true
	switch cfgName {
	case "bare(empty-store,no-keys,nil-clock)":
		s.Cfg.Store = &world.SimCertStore{}
		s.Cfg.EncStyle = world.KeyNone
		s.Cfg.NilClock = true
	case "failing-store":
		s.Cfg.Store.FailAt = 1 + p2%3
	case "skip-signature":
		s.Cfg.SkipSig = true
	case "no-keys":
		s.Cfg.EncStyle = world.KeyNone
	case "validate-enc-cert+garbage-cert":
		s.Cfg.ValidateEncCert = true
		s.Cfg.EncCertRaw = []byte("-----BEGIN CERTIFICATE-----\nnot DER at all\n-----END CERTIFICATE-----\n")
	case "validate-enc-cert+empty-cert":
		s.Cfg.ValidateEncCert = true
		s.Cfg.EncCertRaw = []byte{}
	case "tls-store-empty-chain", "validate-enc-cert+tls-store-empty-chain":
		s.Cfg.EncStyle, s.Cfg.EncTLSMode = world.KeyTLS, 1
		s.Cfg.ValidateEncCert = strings.HasPrefix(cfgName, "validate")
	case "validate-enc-cert+tls-store-nil-chain":
		s.Cfg.EncStyle, s.Cfg.EncTLSMode, s.Cfg.ValidateEncCert = world.KeyTLS, 2, true
	case "tls-store-zero-value", "validate-enc-cert+tls-store-zero-value":
		s.Cfg.EncStyle, s.Cfg.EncTLSMode = world.KeyTLS, 3
		s.Cfg.ValidateEncCert = strings.HasPrefix(cfgName, "validate")
	case "validate-enc-cert+tls-store-empty-leaf":
		s.Cfg.EncStyle, s.Cfg.EncTLSMode, s.Cfg.ValidateEncCert = world.KeyTLS, 4, true
	case "setter-key-without-certificate", "validate-enc-cert+setter-key-without-certificate":
		s.Cfg.EncStyle, s.Cfg.EncCertRaw = world.KeySetter, []byte{}
		s.Cfg.ValidateEncCert = strings.HasPrefix(cfgName, "validate")
	case "limit=maxint64":
		s.Cfg.MaxBody = 1<<63 - 1
	case "limit=negative":
		s.Cfg.MaxBody = -int64(2 + p2%7)
	}
	if !s.Build() {
		return
	}
	r.Probe("family=" + family)
	r.Probe("cfg=" + cfgName)
	now := s.Epoch
	ctx := obs("family", family, "config", cfgName)

	switch family {
	case "corrupt":
		kind := c09Corrupt[kindRaw%len(c09Corrupt)]
		base := baseRaw % c09Bases
		xmlText, mkind, err := c09Base(s, base, spKey, spCert, now)
		if err != nil {
			r.HarnessError("base %d: %v", base, err)
			return
		}
		var enc string
		off := 0
		flip := func(b []byte) []byte {
			if len(b) == 0 {
				return b
			}
			off = p1 % len(b)
			c := append([]byte(nil), b...)
			c[off] ^= 1 << (p2 % 8)
			return c
		}
		cut := func(b []byte) []byte {
			off = p1 % (len(b) + 1)
			return b[:off]
		}
		switch kind {
		case "truncate-xml":
			enc = world.B64(cut([]byte(xmlText)))
			r.Probe("truncate")
		case "bitflip-xml":
			enc = world.B64(flip([]byte(xmlText)))
			r.Probe("bitflip")
		case "delete-byte-xml":
			b := []byte(xmlText)
			off = p1 % len(b)
			enc = world.B64(append(append([]byte(nil), b[:off]...), b[off+1:]...))
		case "insert-byte-xml":
			b := []byte(xmlText)
			off = p1 % len(b)
			ins := []byte{'<', '>', '&', '"', 0, ':', 0xff, ']'}[p2%8]
			enc = world.B64(append(append(append([]byte(nil), b[:off]...), ins), b[off:]...))
		case "truncate-b64":
			enc = string(cut([]byte(world.B64([]byte(xmlText)))))
			r.Probe("truncate")
		case "bitflip-b64":
			enc = string(flip([]byte(world.B64([]byte(xmlText)))))
			r.Probe("bitflip")
		case "truncate-deflate":
			enc = world.B64(cut(world.Deflate([]byte(xmlText), 6)))
			r.Probe("truncate")
		case "bitflip-deflate":
			enc = world.B64(flip(world.Deflate([]byte(xmlText), 6)))
			r.Probe("bitflip")
		}
		r.Fault(kind)
		cs := c09CallAll(s.Node, enc)
		r.Steps += len(cs)
		ctx["corruption"], ctx["base"], ctx["base_kind"], ctx["offset"], ctx["bit"], ctx["input_b64"] = kind, base, mkind, off, p2%8, trunc(enc, 3000)
		classes := c09Judge(r, family, kind, cs, ctx)
		r.Logf("corrupt %s base=%d(%s) off=%d cfg=%s -> %s", kind, base, mkind, off, cfgName, classes)
		r.Shape(fmt.Sprintf("corrupt.%s.b%d.o%d.%s.%s", kind, base, off/16, cfgName, classes))
		r.Sample = obs("family", family, "corruption", kind, "base", base, "base_kind", mkind, "offset", off, "config", cfgName, "outcomes(VR,RAI,DUB,DUL,LRq,LRs)", classes)

	case "cipher":
		c09Cipher(r, s, spKey, spCert, kindRaw, baseRaw, p1, p2, cfgName, ctx)

	case "mutate":
		// structure-aware damage: 1-3 tree mutations of a genuine message
		base := baseRaw % c09Bases
		xmlText, mkind, err := c09Base(s, base, spKey, spCert, now)
		if err != nil {
			r.HarnessError("base %d: %v", base, err)
			return
		}
		d := etree.NewDocument()
		if err := d.ReadFromString(xmlText); err != nil {
			r.HarnessError("base %d does not parse: %v", base, err)
			return
		}
		rs := core.NewSplitMix(uint64(p1)*131071 + uint64(p2) + 5)
		pick := func(n int) int { return int(rs.Next() % uint64(n)) }
		names := []string{"Assertion", "Response", "Issuer", "Signature", "SignedInfo", "Reference", "Subject", "NameID", "Conditions", "EncryptedAssertion", "EncryptedData", "EncryptedKey", "CipherValue", "Status", "StatusCode", "SubjectConfirmationData", "KeyInfo", "X509Certificate", "LogoutRequest", "LogoutResponse", "Transforms", "DigestValue", "SignatureValue"}
		var muts []string
		for k := 0; k < 1+kindRaw%3; k++ {
			all := d.Root().FindElements("//*")
			all = append(all, d.Root())
			e := all[pick(len(all))]
			switch pick(10) {
			case 0:
				if p := e.Parent(); p != nil && e != d.Root() {
					p.RemoveChild(e)
					muts = append(muts, "drop:"+e.Tag)
				}
			case 1:
				if p := e.Parent(); p != nil && e != d.Root() {
					p.InsertChildAt(e.Index(), e.Copy())
					muts = append(muts, "dup:"+e.Tag)
				}
			case 2:
				e.Tag = names[pick(len(names))]
				muts = append(muts, "rename->"+e.Tag)
			case 3:
				if len(e.Attr) > 0 {
					a := e.Attr[pick(len(e.Attr))]
					e.RemoveAttr(a.FullKey())
					muts = append(muts, "rmattr:"+a.Key)
				}
			case 4:
				if len(e.Attr) > 0 {
					i := pick(len(e.Attr))
					e.Attr[i].Value = []string{"", " ", "#", "0", "-1", "2.0", "true", "\x00"}[pick(7)]
					muts = append(muts, "setattr:"+e.Attr[i].Key)
				}
			case 5:
				tgt := all[pick(len(all))]
				if e != d.Root() && tgt != e && e.Parent() != nil && !isAncestor(e, tgt) {
					e.Parent().RemoveChild(e)
					tgt.AddChild(e)
					muts = append(muts, "move:"+e.Tag+"->"+tgt.Tag)
				}
			case 6:
				e.SetText([]string{"", " ", "AAAA", "!!!", "-", "2030-01-01T00:00:00Z"}[pick(6)])
				muts = append(muts, "settext:"+e.Tag)
			case 7:
				e.Space = []string{"", "x", "ds", "saml", "samlp", "xenc"}[pick(6)]
				muts = append(muts, "prefix:"+e.Tag)
			case 8:
				for len(e.Child) > 0 {
					e.RemoveChildAt(0)
				}
				muts = append(muts, "empty:"+e.Tag)
			default:
				c := e.CreateElement(names[pick(len(names))])
				c.Space = e.Space
				muts = append(muts, "addchild:"+c.Tag)
			}
		}
		doc, _ := d.WriteToString()
		r.Fault("mutate_tree")
		enc := world.Present(doc, p2%3 == 1, 6)
		cs := c09CallAll(s.Node, enc)
		r.Steps += len(cs)
		ctx["base"], ctx["base_kind"], ctx["mutations"], ctx["doc"] = base, mkind, muts, trunc(doc, 2500)
		classes := c09Judge(r, family, "tree", cs, ctx)
		r.Logf("mutate base=%d(%s) %v cfg=%s -> %s", base, mkind, muts, cfgName, classes)
		r.Shape(fmt.Sprintf("mutate.b%d.%v.%s.%s", base, muts, cfgName, classes))
		r.Sample = obs("family", family, "base", base, "base_kind", mkind, "mutations", muts, "config", cfgName, "outcomes", classes)

	case "shape":
		sh := kindRaw % 9
		var doc string
		P := `xmlns:samlp="` + world.NSProtocol + `" xmlns:saml="` + world.NSAssertion + `"`
		depth := 10 + (p1%10)*1000
		switch sh {
		case 0: // deep nesting of Extensions
			doc = `<samlp:Response ` + P + ` ID="_d" Version="2.0">` + strings.Repeat(`<samlp:Extensions>`, depth) + strings.Repeat(`</samlp:Extensions>`, depth) + `</samlp:Response>`
			r.Probe("deep_document")
		case 1: // deep nesting of assertions inside Advice
			doc = `<samlp:Response ` + P + ` ID="_d" Version="2.0">` + strings.Repeat(`<saml:Assertion ID="_a"><saml:Advice>`, depth/2) + strings.Repeat(`</saml:Advice></saml:Assertion>`, depth/2) + `</samlp:Response>`
			r.Probe("deep_document")
		case 2: // wide
			doc = `<samlp:Response ` + P + ` ID="_d" Version="2.0">` + strings.Repeat(`<saml:Assertion ID="_a"/>`, depth) + `</samlp:Response>`
		case 3: // many signatures
			doc = `<samlp:Response ` + P + ` ID="_d" Version="2.0">` + strings.Repeat(`<ds:Signature xmlns:ds="`+world.NSDsig+`"><ds:SignedInfo/><ds:SignatureValue/></ds:Signature>`, 1+depth/100) + `</samlp:Response>`
		case 4: // empty / whitespace / no root
			doc = []string{"", " ", "<?xml version=\"1.0\"?>", "<!-- only a comment -->", "<a", "\xff\xfe", "<a/><b/>", "<!DOCTYPE a [<!ENTITY x \"y\">]><a>&x;</a>"}[p1%8]
		case 5: // other roots
			doc = []string{`<saml:Assertion xmlns:saml="` + world.NSAssertion + `" ID="_x"/>`, `<samlp:AuthnRequest ` + P + ` ID="_x"/>`, `<Response/>`, `<samlp:Response ` + P + `/>`, `<samlp:LogoutRequest ` + P + `/>`, `<samlp:LogoutResponse ` + P + ` ID=""/>`, `<x:Response xmlns:x="urn:x" ID="_x"/>`, `<samlp:Response ` + P + ` ID="_x" ID="_y"/>`}[p1%8]
		case 6: // signature with missing parts referencing the root
			sigs := []string{
				`<ds:Signature xmlns:ds="` + world.NSDsig + `"/>`,
				`<ds:Signature xmlns:ds="` + world.NSDsig + `"><ds:SignedInfo/></ds:Signature>`,
				`<ds:Signature xmlns:ds="` + world.NSDsig + `"><ds:SignedInfo><ds:CanonicalizationMethod Algorithm="` + world.C14NAlgs[0] + `"/><ds:Reference URI="#_d"/></ds:SignedInfo><ds:SignatureValue/></ds:Signature>`,
				`<ds:Signature xmlns:ds="` + world.NSDsig + `"><ds:SignedInfo><ds:CanonicalizationMethod Algorithm="` + world.C14NAlgs[0] + `"/><ds:SignatureMethod Algorithm="x"/><ds:Reference URI=""><ds:DigestMethod Algorithm="y"/><ds:DigestValue>AAAA</ds:DigestValue></ds:Reference></ds:SignedInfo><ds:SignatureValue>AAAA</ds:SignatureValue><ds:KeyInfo/></ds:Signature>`,
				`<ds:Signature xmlns:ds="` + world.NSDsig + `"><ds:SignedInfo><ds:CanonicalizationMethod Algorithm="` + world.C14NAlgs[2] + `"/><ds:SignatureMethod Algorithm="` + world.RSASigAlgs[0] + `"/><ds:Reference URI="#"><ds:Transforms><ds:Transform Algorithm="q"/></ds:Transforms></ds:Reference></ds:SignedInfo><ds:SignatureValue>!!</ds:SignatureValue><ds:KeyInfo><ds:X509Data><ds:X509Certificate>AAAA</ds:X509Certificate></ds:X509Data></ds:KeyInfo></ds:Signature>`,
				`<ds:Signature xmlns:ds="` + world.NSDsig + `"><ds:SignedInfo><ds:CanonicalizationMethod/><ds:Reference/></ds:SignedInfo><ds:SignatureValue/></ds:Signature>`,
			}
			doc = `<samlp:Response ` + P + ` ID="_d" Version="2.0"><saml:Issuer>x</saml:Issuer>` + sigs[p1%len(sigs)] + `<saml:Assertion ID="_a">` + sigs[(p1+p2)%len(sigs)] + `</saml:Assertion></samlp:Response>`
		case 8: // genuine, trusted, but lean: assertions lacking optional parts in every combination (p1 = bit mask per part, p2 = which assertions)
			idp := &world.IdP{Name: "lean"}
			bt := core.NewGenTape(uint64(9000+p1), nil)
			m := world.GenResponse(bt, idp, s.Fed, now, 2+p2%2, false)
			m.Sign = world.PlainSigOpts(s.IdPKey, s.IdPCert)
			for i, a := range m.Assertions {
				if (p2/2)%2 == 0 && i == 0 {
					continue // only the later assertions
				}
				if p1&1 != 0 {
					a.HasConditions, a.NotBefore, a.NotOnOrAfter, a.AudienceRestrictions = false, nil, nil, nil
				}
				if p1&2 != 0 {
					a.HasAttrStmt, a.Attrs = false, nil
				}
				if p1&4 != 0 {
					a.Authn = nil
				}
				if p1&8 != 0 {
					a.NameID = nil
				}
				if p1&16 != 0 {
					a.Issuer = nil
				}
				if p1&32 != 0 {
					a.HasSubject = false
				}
			}
			x, err := idp.Issue(m, world.Layout{}, 0)
			if err != nil {
				r.HarnessError("lean message: %v", err)
				return
			}
			doc = x
			r.Probe("lean_genuine_message")
		default: // huge attribute / text
			doc = `<samlp:Response ` + P + ` ID="_d" Version="2.0" Destination="` + strings.Repeat("A", 1+depth*10) + `"><saml:Issuer>` + strings.Repeat("&amp;", depth) + `</saml:Issuer></samlp:Response>`
		}
		r.Fault("hostile_shape")
		enc := world.Present(doc, p2%3 == 1, 6)
		cs := c09CallAll(s.Node, enc)
		r.Steps += len(cs)
		ctx["shape"], ctx["depth"], ctx["doc"] = sh, depth, trunc(doc, 600)
		classes := c09Judge(r, family, fmt.Sprint(sh), cs, ctx)
		r.Logf("shape %d depth=%d cfg=%s -> %s", sh, depth, cfgName, classes)
		r.Shape(fmt.Sprintf("shape.%d.%d.%s.%s", sh, p1%10, cfgName, classes))
		r.Sample = obs("family", family, "shape", sh, "size", depth, "config", cfgName, "outcomes", classes)
	}
}

func isAncestor(a, b *etree.Element) bool {
	for x := b; x != nil; x = x.Parent() {
		if x == a {
			return true
		}
	}
	return false
}

func c09Cipher(r *core.Run, s *Std, spKey int, spCert *world.Cert, kindRaw, algRaw, p1, p2 int, cfgName string, ctx map[string]any) {
	kind := c09CipherKinds[kindRaw%len(c09CipherKinds)]
	r.Probe("cipher=" + kind)
	r.Fault("hostile_ciphertext")
	pub := &world.Key(spKey).RSA.PublicKey
	tc := &tls.Certificate{Certificate: [][]byte{spCert.DER}, PrivateKey: world.Key(spKey).RSA}
	dataAlg := c09DataAlgIDs[algRaw%len(c09DataAlgIDs)]
	keyAlgs := []string{types.MethodRSAOAEP, types.MethodRSAOAEP2, types.MethodRSAv1_5, "urn:unknown-transport", ""}
	keyAlg := keyAlgs[0]
	ksz := world.KeySizeOf(dataAlg)
	symKey := make([]byte, ksz)
	for i := range symKey {
		symKey[i] = byte(i*7 + 1)
	}
	var ct []byte
	var ek []byte
	var ekErr error
	wrap := func(alg string, k []byte) {
		switch alg {
		case types.MethodRSAOAEP, types.MethodRSAOAEP2, types.MethodRSAv1_5:
			ek, ekErr = world.WrapKey(alg, "", pub, k, nil)
		default:
			ek, ekErr = world.WrapKey(types.MethodRSAOAEP, "", pub, k, nil)
		}
	}
	rawCBC := func(plainBlocks []byte) []byte {
		// the attacker knows the symmetric key, so it controls the decrypted bytes exactly
		blk, _ := aes.NewCipher(symKey)
		iv := make([]byte, 16)
		out := make([]byte, len(plainBlocks))
		cipher.NewCBCEncrypter(blk, iv).CryptBlocks(out, plainBlocks)
		return append(iv, out...)
	}
	detail := ""
	opts := &world.EncOpts{DataAlg: dataAlg, KeyAlg: keyAlg, Detached: p2%2 == 1}
	switch kind {
	case "length-sweep":
		l := p1 % 81
		ct = make([]byte, l)
		for i := range ct {
			ct[i] = byte(i*13 + p2)
		}
		wrap(keyAlg, symKey)
		detail = fmt.Sprintf("len=%d", l)
	case "cbc-last-byte":
		v := byte(p1 % 256)
		nblk := 1 + p2%3
		d := make([]byte, 16*nblk)
		for i := range d {
			d[i] = 'x'
		}
		d[len(d)-1] = v
		ct = rawCBC(d)
		wrap(keyAlg, symKey)
		detail = fmt.Sprintf("last=%d blocks=%d", v, nblk)
	case "cbc-all-zero":
		nblk := p1 % 6
		ct = rawCBC(make([]byte, 16*nblk))
		if p1%6 == 5 {
			ct = ct[:16] // IV only
		}
		wrap(keyAlg, symKey)
		detail = fmt.Sprintf("zero blocks=%d", nblk)
	case "cbc-pad-then-zeros":
		// k arbitrary octets, then octet v, then zeros to the end of the block(s): exercises the
		// zero-trimming and padding arithmetic together
		k, v := p1%17, byte((p1/17)%24)
		nblk := 1 + p2%2
		d := make([]byte, 16*nblk)
		for i := 0; i < k && i < len(d); i++ {
			d[i] = 'y'
		}
		if k < len(d) {
			d[k] = v
		}
		ct = rawCBC(d)
		wrap(keyAlg, symKey)
		detail = fmt.Sprintf("prefix=%d then=%d zeros blocks=%d", k, v, nblk)
	case "cbc-random-blocks":
		rs := core.NewSplitMix(uint64(p1)*65537 + uint64(p2))
		nblk := 1 + p2%4
		d := make([]byte, 16*nblk)
		for i := range d {
			d[i] = byte(rs.Next())
			if rs.Next()%4 == 0 {
				d[i] = 0
			}
		}
		ct = rawCBC(d)
		wrap(keyAlg, symKey)
		detail = fmt.Sprintf("random blocks=%d", nblk)
	case "wrapped-key-length":
		keyAlg = keyAlgs[algRaw%len(keyAlgs)]
		opts.KeyAlg = keyAlg
		opts.DataAlg = types.MethodAES128GCM
		l := p1 % 261
		ek = make([]byte, l)
		for i := range ek {
			ek[i] = byte(i*31 + 7)
		}
		ct = make([]byte, 40)
		detail = fmt.Sprintf("ek-len=%d transport=%s", l, keyAlg)
	case "wrapped-key-size":
		keyAlg = keyAlgs[algRaw%3]
		opts.KeyAlg = keyAlg
		opts.DataAlg = c09DataAlgIDs[p2%len(c09DataAlgIDs)]
		sz := p1 % 40
		wrap(keyAlg, make([]byte, sz))
		ct = make([]byte, 48)
		detail = fmt.Sprintf("sym-key-size=%d", sz)
	case "bad-base64", "missing-parts":
		wrap(keyAlg, symKey)
		ct = make([]byte, 44)
		detail = fmt.Sprintf("variant=%d", p1%12)
	case "algorithm-dictionary":
		// a well-formed envelope (genuinely wrapped key, plausible ciphertext) naming algorithms
		// from the whole standards vocabulary in each of the four places
		opts.KeyAlg = c09KeyTransportURIs[p1%len(c09KeyTransportURIs)]
		opts.Digest = c09DigestURIs[(p1/len(c09KeyTransportURIs))%len(c09DigestURIs)]
		opts.DataAlg = c09BlockURIs[algRaw%len(c09BlockURIs)]
		symKey = symKey[:0]
		for i := 0; i < world.KeySizeOf(opts.DataAlg); i++ {
			symKey = append(symKey, byte(i*7+1))
		}
		wrap(types.MethodRSAOAEP, symKey)
		ct = make([]byte, 16*(2+p2%3))
		for i := range ct {
			ct[i] = byte(i*29 + p2)
		}
		detail = fmt.Sprintf("transport=%q digest=%q mgf=%q", opts.KeyAlg, opts.Digest, c09MGFURIs[p2%len(c09MGFURIs)])
	case "x509data-variants":
		wrap(keyAlg, symKey)
		ct = make([]byte, 44)
		opts.EmbedCert = spCert.DER
		detail = fmt.Sprintf("x509data-variant=%d", p1%14)
	}
	if ekErr != nil {
		// e.g. message too long for the RSA key: nothing to deliver
		r.Logf("cipher %s not constructible: %v", kind, ekErr)
		r.Shape("cipher.na." + kind)
		return
	}
	x := world.EncryptedAssertionXML(opts, ct, ek)
	switch kind {
	case "algorithm-dictionary":
		if opts.Digest == "" && p2%2 == 0 {
			// an explicit DigestMethod without (or with an empty) Algorithm
			x = strings.Replace(x, `<xenc:EncryptionMethod Algorithm="`+opts.KeyAlg+`">`, `<xenc:EncryptionMethod Algorithm="`+opts.KeyAlg+`"><ds:DigestMethod xmlns:ds="`+world.NSDsig+`"`+[]string{``, ` Algorithm=""`}[p2/2%2]+`/>`, 1)
		}
		if mgf := c09MGFURIs[p2%len(c09MGFURIs)]; mgf != "" {
			x = strings.Replace(x, `<xenc:EncryptionMethod Algorithm="`+opts.KeyAlg+`">`, `<xenc:EncryptionMethod Algorithm="`+opts.KeyAlg+`"><xenc11:MGF xmlns:xenc11="http://www.w3.org/2009/xmlenc11#" Algorithm="`+mgf+`"/>`, 1)
		}
	case "x509data-variants":
		good := base64.StdEncoding.EncodeToString(spCert.DER)
		half := len(good) / 2
		ecCert := world.MintCert(world.FirstEC, s.Epoch.Add(-time.Hour), s.Epoch.Add(100*time.Hour), 5)
		lookalike := world.MintLookalike(spCert, 6)
		v := []string{"!!!not base64!!!", "", " ", good[:half], good[:half] + "\n" + good[half:], " " + good + " ", base64.StdEncoding.EncodeToString(s.IdPCert.DER), "AAAA", good + good, "====",
			base64.StdEncoding.EncodeToString(ecCert.DER), base64.StdEncoding.EncodeToString(lookalike.DER), "\n", "\r\n"}[p1%14]
		x = strings.Replace(x, good, v, 1)
	case "bad-base64":
		x = strings.Replace(x, "<xenc:CipherValue>", "<xenc:CipherValue>"+[]string{"!", "=", "A", "====", " \n", "AA=A"}[p1%6], 1+p1%2)
	case "missing-parts":
		cutTag := []string{"xenc:CipherData", "xenc:EncryptionMethod", "ds:KeyInfo", "xenc:EncryptedKey", "xenc:CipherValue", "xenc:EncryptedData"}[p1%6]
		if i := strings.Index(x, "<"+cutTag); i >= 0 {
			if j := strings.Index(x[i:], "</"+cutTag+">"); j >= 0 {
				x = x[:i] + x[i+j+len(cutTag)+3:]
			}
		}
	}
	// direct calls on the types-level API
	ea := &types.EncryptedAssertion{}
	var cs []c09Call
	if err := xml.Unmarshal([]byte(x), ea); err == nil {
		for _, cert := range []*tls.Certificate{tc, {}, {Certificate: [][]byte{spCert.DER}}} {
			cert := cert
			var nilRes bool
			o := world.Guard(func() error { _, e := ea.DecryptBytes(cert); return e })
			cs = append(cs, c09Call{"EncryptedAssertion.DecryptBytes", o, o.Err != nil})
			o = world.Guard(func() error { a, e := ea.Decrypt(cert); nilRes = a == nil; return e })
			cs = append(cs, c09Call{"EncryptedAssertion.Decrypt", o, nilRes})
			if ekp := encKeyOf(ea); ekp != nil {
				o = world.Guard(func() error { b, e := ekp.DecryptSymmetricKey(cert); nilRes = b == nil; return e })
				cs = append(cs, c09Call{"EncryptedKey.DecryptSymmetricKey", o, nilRes})
			}
		}
	}
	// and through an unsigned Response (reachable without any IdP key)
	now := s.Epoch
	resp := `<samlp:Response xmlns:samlp="` + world.NSProtocol + `" xmlns:saml="` + world.NSAssertion + `" ID="_c" Version="2.0" IssueInstant="` + now.Format(time.RFC3339) + `"><saml:Issuer>` + s.Fed.IdPIssuer + `</saml:Issuer><samlp:Status><samlp:StatusCode Value="` + world.StatusOK + `"/></samlp:Status>` + x + `</samlp:Response>`
	r.Probe("via_unsigned_response")
	cs = append(cs, c09CallAll(s.Node, world.Present(resp, p2%4 == 3, 6))...)
	r.Steps += len(cs)
	ctx["cipher_kind"], ctx["data_alg"], ctx["key_alg"], ctx["detail"], ctx["ciphertext_b64"], ctx["encrypted_assertion"] = kind, opts.DataAlg, opts.KeyAlg, detail, base64.StdEncoding.EncodeToString(ct), trunc(x, 1500)
	classes := c09Judge(r, "cipher", kind, cs, ctx)
	r.Logf("cipher %s alg=%q %s cfg=%s -> %s", kind, opts.DataAlg, detail, cfgName, classes)
	r.Shape(fmt.Sprintf("cipher.%s.%s.%s.%s.%s", kind, opts.DataAlg, detail, cfgName, classes))
	r.Sample = obs("family", "cipher", "kind", kind, "data_alg", opts.DataAlg, "key_alg", opts.KeyAlg, "detail", detail, "config", cfgName, "outcomes", classes)
}

// encKeyOf returns the EncryptedKey DecryptBytes would use (inline, else detached). The
// fields are read through reflection so that the harness keeps compiling if a change to the
// library turns one of them into a pointer.
func encKeyOf(ea *types.EncryptedAssertion) *types.EncryptedKey {
	get := func(name string) *types.EncryptedKey {
		f := reflect.ValueOf(ea).Elem().FieldByName(name)
		if !f.IsValid() {
			return nil
		}
		if f.Kind() == reflect.Ptr {
			if f.IsNil() {
				return nil
			}
			f = f.Elem()
		}
		if !f.CanAddr() {
			return nil
		}
		k, _ := f.Addr().Interface().(*types.EncryptedKey)
		return k
	}
	if k := get("EncryptedKey"); k != nil && k.CipherValue != "" {
		return k
	}
	if k := get("DetEncryptedKey"); k != nil {
		return k
	}
	return get("EncryptedKey")
}
