package props

import (
	"fmt"
	"time"

	"github.com/russellhaering/gosaml2/types"

	"verifsim/core"
	"verifsim/world"
)

// C01 — accepted SSO assertions are always IdP-signed: no forgery, wrapping or swapping.
// C04 (SSO part) — trust indicators never overstate.
//
// A trusted IdP, an untrusted IdP and an attacker with own keys. The trusted IdP issues a
// history of genuine messages in every placement; the adversary builds each delivered
// message from that history with the operators of world.AttackOps. Oracle: conservation
// over the issue log at every accept.

func init() {
	register(&Prop{
		ID:    "C01",
		Level: "exploration",
		Rule: "seeded federation runs: history of 1-4 genuine messages (trusted and untrusted IdP; Response / assertion / both signed; 1-3 assertions; plain or encrypted; logout kinds), then 1-3 deliveries built by a drawn adversary operator " +
			"(replay, strip, edit, re-sign, trusted-cert-foreign-key, drop KeyInfo, XSW wrap catalogue, splice, evil sibling, nesting, duplicate element, shadow attribute, comment/CDATA injection, namespace tricks, relocate / swap signatures, attacker-encrypt), raw or DEFLATE; store may roll over between issue and delivery; " +
			"oracle: every accepted assertion equals a unit of the issue log signed by a certificate in the store and valid at the SP clock; directed prefix enumerates operator x victim placement x parameters; distinct = shape hash (history placements, operator, detail, entry point, outcome)",
		Directed:    func(tier string) [][]uint64 { return c01Directed(tier) },
		Run:         func(r *core.Run) { ssoAdversarial(r, "C01") },
		MustHit:     c01MustHit,
		RandomRuns:  map[string]int{"quick": 8000, "thorough": 100000},
		Assumptions: []string{"documents < 800 elements, depth <= 64", "removal of the round-trip screen is only detectable where a catalogued encoding/xml instability is still exploitable on this Go version (not promised)"},
	})
	register(&Prop{
		ID:    "C04",
		Level: "exploration",
		Rule: "same adversarial federation runs as C01 plus skip-signature configurations and the logout flows of C10, evaluated with the flag oracle: every true SignatureValidated / ResponseSignatureValidated corresponds to an issue-log unit of exactly that element kind, honoured at the SP clock, with equal fields; " +
			"all indicators false with checking off; with checking on and the Response indicator false every returned assertion is individually validated; summary flag mirrors the Response flag; distinct = shape hash as C01/C10",
		Directed:   func(tier string) [][]uint64 { return c04Directed(tier) },
		Run:        c04Run,
		MustHit:    append([]string{"skip_config", "logout_flow"}, c01MustHit...),
		RandomRuns: map[string]int{"quick": 8000, "thorough": 100000},
	})
}

var c01MustHit = []string{"op=wrap", "op=splice", "op=strip_all_signatures", "op=resign_attacker_key", "op=trusted_cert_foreign_key", "op=evil_sibling", "op=nest_in_response",
	"op=duplicate_element", "op=shadow_attribute", "op=comment_inject", "op=relocate_signature", "op=attacker_encrypt", "op=replay", "untrusted_idp", "compressed", "replay_after_rollover", "victim=R", "victim=A", "victim=RA"}

// draw order: nHist, then per history message: who, kind, place, n, enc ; then op ...
// directed prefix: one history message of a given placement, then the operator and its first parameters
func c01Directed(tier string) [][]uint64 {
	var out [][]uint64
	for op := uint64(0); op < uint64(len(world.AttackOps)); op++ {
		for place := uint64(0); place < 3; place++ {
			for n := uint64(0); n < 2; n++ {
				for p1 := uint64(0); p1 < 3; p1++ {
					for p2 := uint64(0); p2 < 3; p2++ {
						for p3 := uint64(0); p3 < 6; p3++ {
							if world.AttackOps[op] != "wrap" && world.AttackOps[op] != "attacker_encrypt" && (p2 > 0 || p3 > 2) {
								continue
							}
							if tier == "quick" && (op+place+n+p1+p2+p3)%3 != 0 {
								continue
							}
							// skipMode(0), nHist=1(0), who=trusted(0), kind=Response(0), place, n, enc=0, rollover=0, nDeliv=1(0), op, msg(0), p1, p2, p3
							out = append(out, []uint64{0, 0, 0, 0, place, n, 0, 0, 0, op, 0, p1, p2, p3})
						}
					}
				}
			}
		}
	}
	// a genuine signed assertion beyond the traversal budget, re-encrypted by the attacker, followed by a forged sibling
	enc := uint64(0)
	for i, o := range world.AttackOps {
		if o == "attacker_encrypt" {
			enc = uint64(i)
		}
	}
	for _, place := range []uint64{1, 2} {
		for _, kind := range []uint64{5, 0, 1} {
			out = append(out, []uint64{0, 0, 0, 0, place, 0, 0, 0, 0, enc, 0, kind, 0, 0, 0, 0, 0, 0, 0, 0, 1})
			// the same with every later choice forced to its simplest value (plain layout, plain signature,
			// raw delivery), so that the case does not depend on what the run seed draws for them
			out = append(out, append([]uint64{0, 0, 0, 0, place, 0, 0, 0, 0, enc, 0, kind, 0, 0, 0, 0, 0, 0, 0, 0, 1}, make([]uint64, 160)...))
		}
		// the genuine signed assertion inside a wrapper element as attacker-encrypted plaintext
		for w := uint64(0); w < 4; w++ {
			for deep := uint64(0); deep < 2; deep++ {
				out = append(out, []uint64{0, 0, 0, 0, place, 0, 0, 0, 0, enc, 0, 6, w, deep, 0, 0, 0, 0, 0, 0, 0})
			}
		}
	}
	return out
}

func c04Directed(tier string) [][]uint64 {
	var out [][]uint64
	for _, d := range c01Directed(tier) {
		c := append([]uint64{0}, d...) // flow selector 0 = SSO
		out = append(out, c)
		if d[9]%3 == 0 {
			c2 := append([]uint64{0}, d...)
			c2[1] = 1 // skip-signature configuration
			out = append(out, c2)
		}
	}
	inj := uint64(len(world.AttackOps) - 1) // result_field_injection, with checking off and on
	for where := uint64(0); where < 4; where++ {
		for form := uint64(0); form < 4; form++ {
			for place := uint64(0); place < 3; place++ {
				out = append(out, []uint64{0, 1, 0, 0, 0, place, 0, 0, 0, 0, inj, 0, where, form})
			}
		}
	}
	for i := uint64(0); i < 40; i++ {
		out = append(out, []uint64{1, i % 2, []uint64{0, 4, 8, 9, 10, 11}[i%6], (i / 5) % 8}) // logout flows
	}
	return out
}

func c04Run(r *core.Run) {
	if r.Tape.Int(2, "c04.flow") == 1 {
		r.Probe("logout_flow")
		logoutAdversarial(r, "C04")
		return
	}
	ssoAdversarial(r, "C04")
}

func ssoAdversarial(r *core.Run, prop string) {
	t := r.Tape
	skipMode := 0
	if prop == "C04" {
		skipMode = t.Int(2, "adv.skip")
	} else {
		t.Int(1, "adv.skip")
	}
	// the plan is drawn before any content so that a directed prefix can force it
	nHist := 1 + t.Int(4, "adv.nhist")
	type histPlan struct {
		who, kind, place, n int
		enc                 bool
	}
	drawPlan := func() histPlan {
		return histPlan{t.Int(5, "adv.hist.who"), t.Int(8, "adv.hist.kind"), t.Int(3, "adv.hist.place"), 1 + t.Int(3, "adv.hist.n"), t.Int(4, "adv.hist.enc") == 1}
	}
	plan0 := drawPlan()
	rollover := t.Int(8, "adv.rollover") == 1
	nDeliv := 1 + t.Int(3, "adv.ndeliv")
	op0 := t.Int(len(world.AttackOps), "adv.op")
	var q []uint64
	for i := 0; i < 10; i++ {
		q = append(q, t.Draw(1<<16, "adv.param"))
	}
	// a first assertion of more than a thousand elements (the signature library's traversal
	// budget) in the first history message
	big := t.Int(16, "adv.hist.big") == 1
	// a lean first history message: the (trusted, signing) IdP leaves out an Issuer - of the first assertion,
	// of every assertion, or of the Response. Whatever the SP makes of such a message, nothing it returns as
	// validated may come from anywhere but the signed element itself.
	lean := t.Int(12, "adv.hist.lean")
	s := NewStd(r)
	s.DrawLive()
	untrusted := &world.IdP{Name: "u"}
	untrustedKey := 5
	untrustedCert := world.MintCert(untrustedKey, s.Epoch.Add(-24*time.Hour), s.Epoch.Add(10*365*24*time.Hour), 0)
	spKey := 4
	spCert := world.MintCert(spKey, s.Epoch.Add(-24*time.Hour), s.Epoch.Add(365*24*time.Hour), 1)
	s.Cfg.EncStyle, s.Cfg.EncKeyIdx, s.Cfg.EncCert = world.KeyField, spKey, spCert
	s.Cfg.SkipSig = skipMode == 1
	if s.Cfg.SkipSig {
		r.Probe("skip_config")
	}
	s.Cfg.AllowMissing = true
	if !s.Build() {
		return
	}
	adv := &world.Adversary{KeyIdx: 6, Cert: world.MintCert(6, s.Epoch.Add(-24*time.Hour), s.Epoch.Add(10*365*24*time.Hour), 0),
		SPPub: &world.Key(spKey).RSA.PublicKey, SPCert: spCert.DER}

	// ---- history of genuine messages
	var hist []world.IssuedMsg
	encIDs := map[string]bool{}
	histSig := ""
	for i := 0; i < nHist; i++ {
		pl := plan0
		if i > 0 {
			pl = drawPlan()
		}
		who, kind, place, n, enc := pl.who, pl.kind, pl.place, pl.n, pl.enc
		idp, key, cert := s.IdP, s.IdPKey, s.IdPCert
		if who == 3 {
			idp, key, cert = untrusted, untrustedKey, untrustedCert
			r.Probe("untrusted_idp")
		}
		// who == 4: the trusted IdP signs a Response around assertions that carry somebody
		// else's (untrusted) signature, e.g. proxied assertions
		foreignAssertionSigs := who == 4
		if foreignAssertionSigs {
			place = PlaceBoth
			r.Probe("trusted_response_over_foreign_signed_assertions")
		}
		now := s.Node.Now()
		var m *world.LResponse
		switch kind {
		case 6:
			m = world.GenLogout(t, idp, s.Fed, now, "LogoutResponse")
			m.Sign = world.PlainSigOpts(key, cert)
		case 7:
			m = world.GenLogout(t, idp, s.Fed, now, "LogoutRequest")
			m.Sign = world.PlainSigOpts(key, cert)
		default:
			m = world.GenResponse(t, idp, s.Fed, now, n, t.Bool("adv.hist.rich"))
			if big && i == 0 {
				vals := make([]string, 1100)
				for k := range vals {
					vals[k] = fmt.Sprint("v", k)
				}
				m.Assertions[0].HasAttrStmt = true
				m.Assertions[0].Attrs = append(m.Assertions[0].Attrs, world.LAttr{Name: "bulk", Values: vals})
				r.Fault("assertion_beyond_traversal_budget")
			}
			if i == 0 && lean >= 1 && lean <= 3 {
				for k, a := range m.Assertions {
					if lean == 2 || (lean == 1 && k == 0) {
						a.Issuer = nil
					}
				}
				if lean == 3 {
					m.Issuer = nil
				}
				r.Probe("lean_history_message")
			}
			mk := func() *world.SigOpts {
				if t.Chance(800, "adv.hist.plainsig") || (big && i == 0) {
					return world.PlainSigOpts(key, cert)
				}
				return world.DrawSigOpts(t, key, cert)
			}
			if place == PlaceResponse || place == PlaceBoth {
				m.Sign = mk()
			}
			for _, a := range m.Assertions {
				if place == PlaceAssertions || place == PlaceBoth {
					a.Sign = mk()
					a.Sign.EmptyURI = false
					if foreignAssertionSigs {
						a.Sign = world.PlainSigOpts(untrustedKey, untrustedCert)
					}
				}
				if enc {
					encIDs[a.ID] = true
					a.Encrypt = world.DrawEncOpts(t, adv.SPPub, spCert.DER)
					if a.Sign != nil {
						a.Sign.ExclusiveOnly()
					}
				}
			}
			r.Probe("victim=" + placeNames[place])
		}
		lay := world.DrawLayout(t)
		if _, err := idp.Issue(m, lay, r.Sim.Now()); err != nil {
			r.HarnessError("issue: %v", err)
			return
		}
		hist = append(hist, idp.Msgs[len(idp.Msgs)-1])
		histSig += fmt.Sprintf("%d%s%d%v%d.", who-2, m.Kind[:2], place, enc, n)
		r.Sim.Advance(time.Duration(1+t.Int(20, "adv.hist.gap")) * time.Second)
	}
	// store roll-over between issue and delivery: the signing certificate is retired
	store := []*world.Cert{s.IdPCert}
	if rollover {
		newCert := world.MintCert((s.IdPKey+1)%4, s.Epoch.Add(-time.Hour), s.Epoch.Add(10*365*24*time.Hour), 0)
		store = []*world.Cert{newCert}
		s.Cfg.Store.Certs = store
		r.Fault("idp_key_rollover")
		r.Probe("replay_after_rollover")
	}
	r.Logf("history %s store=%d skip=%v", histSig, len(store), s.Cfg.SkipSig)

	// ---- deliveries built by the adversary
	logs := []*world.IdP{s.IdP, untrusted}
	for dIdx := 0; dIdx < nDeliv && !r.Failed(); dIdx++ {
		var op string
		bt := t
		if dIdx == 0 {
			op = world.AttackOps[op0]
			bt = core.NewReplayTape(q) // the first delivery's operator parameters were drawn with the plan
		} else {
			op = world.AttackOps[t.Int(len(world.AttackOps), "adv.op")]
		}
		atk, ok := adv.Build(bt, op, hist)
		if !ok {
			r.Logf("delivery %d op=%s not applicable", dIdx, op)
			r.Shape("na:" + op)
			continue
		}
		r.Fault(op)
		r.Probe("op=" + op)
		compress := t.Int(4, "adv.compress") == 1
		if compress {
			r.Probe("compressed")
		}
		enc := world.Present(atk.XML, compress, 6)
		now := s.Node.Now()
		useRetrieve := t.Bool("adv.retrieve")
		ctx := obs("op", op, "detail", atk.Detail, "history", histSig, "compressed", compress, "skip", s.Cfg.SkipSig, "delivered", trunc(atk.XML, 2500))
		// where the delivered document keeps its assertions: only direct children of the root count
		directIDs, hasDirectEnc := world.DirectAssertionIDs(atk.XML)
		// what the delivered Response carries: direct SAML Assertion children plus direct
		// EncryptedAssertion children whose plaintext is an assertion
		carriedPlain, carriedEnc := world.CarriedAssertions(atk.XML)
		if atk.EncNotAssertion {
			carriedEnc = 0
		}
		nestedAssertions := world.AllAssertionElements(atk.XML) - carriedPlain
		carriedAll := func(resp *types.Response) bool {
			if !s.Cfg.SkipSig && !resp.SignatureValidated && nestedAssertions > 0 {
				// an assertion element somewhere below another child of an unsigned Response: never verified
				ctx["nested_assertion_elements"] = nestedAssertions
				r.Fail("conservation", prop+"/unsigned-response-accepted-while-carrying-a-nested-assertion", ctx)
				return false
			}
			if s.Cfg.SkipSig || resp.SignatureValidated || len(resp.Assertions) == carriedPlain+carriedEnc {
				return true
			}
			ctx["carried"], ctx["returned_count"] = carriedPlain+carriedEnc, len(resp.Assertions)
			r.Fail("conservation", prop+"/unsigned-response-accepted-with-an-assertion-that-was-not-verified", ctx)
			return false
		}
		located := func(resp *types.Response) bool {
			if s.Cfg.SkipSig {
				return true
			}
			for i := range resp.Assertions {
				id := resp.Assertions[i].ID
				if directIDs[id] || (hasDirectEnc && encIDs[id]) {
					continue
				}
				ctx["assertion_id"] = id
				r.Fail("location", prop+"/assertion-not-direct-child-of-response", ctx)
				return false
			}
			return true
		}
		if t.Int(6, "adv.ambient") == 1 {
			s.NeighbourNoise(enc)
		}
		var out world.Outcome
		if useRetrieve {
			ai, o := s.Node.Retrieve(enc)
			out = o
			if o.OK() {
				resp, o2 := s.Node.ValidateResponse(enc)
				if !o2.OK() {
					r.Fail("conservation", prop+"/retrieve-accepts-but-validate-rejects", ctx)
					return
				}
				if conservation(r, prop, resp, logs, store, now, s.Cfg.SkipSig, ctx) && located(resp) && carriedAll(resp) && !s.Cfg.SkipSig {
					infoConservation(r, prop, ai, ctx)
				}
				// what RetrieveAssertionInfo hands back is the same as what ValidateEncodedResponse returns for
				// the same payload (which conservation has tied to the issue log)
				if !r.Failed() && len(ai.Assertions) == len(resp.Assertions) {
					for k := range ai.Assertions {
						if !world.EqualAssertion(world.NormAssertion(&ai.Assertions[k]), world.NormAssertion(&resp.Assertions[k])) {
							ctx["assertion"], ctx["via_retrieve"], ctx["via_validate"] = k, trunc(world.J(world.NormAssertion(&ai.Assertions[k])), 700), trunc(world.J(world.NormAssertion(&resp.Assertions[k])), 700)
							r.Fail("conservation", prop+"/retrieve-returns-an-assertion-that-differs-from-the-validated-one", ctx)
							break
						}
					}
				} else if !r.Failed() {
					r.Fail("conservation", prop+"/retrieve-returns-another-number-of-assertions", ctx)
				}
				if ai.ResponseSignatureValidated != resp.SignatureValidated {
					r.Fail("flags", prop+"/summary-flag-differs-from-response-flag", ctx)
				}
			}
		} else {
			resp, o := s.Node.ValidateResponse(enc)
			out = o
			if o.OK() && conservation(r, prop, resp, logs, store, now, s.Cfg.SkipSig, ctx) && located(resp) {
				carriedAll(resp)
			}
		}
		// the application switches signature checking (off for a migration, on again afterwards) on the very
		// SP that has just accepted this payload, and the same payload arrives again: what the second answer
		// says about signatures is decided under the setting in force then
		if prop == "C04" && !r.Failed() && out.OK() && t.Int(4, "adv.toggle") == 1 {
			sp := s.Node.SP
			sp.SkipSignatureValidation = !sp.SkipSignatureValidation
			s.Cfg.SkipSig = sp.SkipSignatureValidation
			ctx["skip"], ctx["redelivered_after_toggling_signature_checking"] = s.Cfg.SkipSig, true
			r.Fault("signature_checking_toggled_then_redelivery")
			if useRetrieve {
				if ai, o := s.Node.Retrieve(enc); o.OK() {
					if s.Cfg.SkipSig && ai.ResponseSignatureValidated {
						r.Fail("flags", prop+"/flag-true-with-checking-off/AssertionInfo", ctx)
					} else if !s.Cfg.SkipSig {
						infoConservation(r, prop, ai, ctx)
					}
				}
			}
			if resp, o := s.Node.ValidateResponse(enc); o.OK() && !r.Failed() {
				if conservation(r, prop, resp, logs, store, now, s.Cfg.SkipSig, ctx) && located(resp) {
					carriedAll(resp)
				}
			}
			r.Steps++
		}
		r.Steps++
		r.Logf("delivery %d op=%s (%s) compress=%v retrieve=%v -> %s %s", dIdx, op, atk.Detail, compress, useRetrieve, out.Class(), world.ErrClass(out.Err))
		r.Shape(fmt.Sprintf("%s|%s|%s|c%v|r%v|%s", histSig, op, atk.Detail, compress, useRetrieve, out.Class()))
		r.Sample = obs("history", histSig, "op", op, "detail", atk.Detail, "outcome", out.Class(), "err", world.ErrClass(out.Err))
		r.Sim.Advance(time.Duration(t.Int(10, "adv.gap")) * time.Second)
	}
}
