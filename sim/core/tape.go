// Package core holds the simulator kernel: the choice tape (one integer decides
// everything), the shrinker, the discrete-event loop and the run record.
package core

import (
	"encoding/binary"
	"fmt"
)

// SplitMix64 is the only PRNG of the harness.
type SplitMix64 struct{ s uint64 }

func NewSplitMix(seed uint64) *SplitMix64 { return &SplitMix64{s: seed} }

func (r *SplitMix64) Next() uint64 {
	r.s += 0x9e3779b97f4a7c15
	z := r.s
	z = (z ^ (z >> 30)) * 0xbf58476d1ce4e5b9
	z = (z ^ (z >> 27)) * 0x94d049bb133111eb
	return z ^ (z >> 31)
}

// Mix hashes several integers into one seed (used for seed derivation only).
func Mix(vs ...uint64) uint64 {
	h := uint64(0x243f6a8885a308d3)
	for _, v := range vs {
		h ^= v + 0x9e3779b97f4a7c15 + (h << 6) + (h >> 2)
		r := SplitMix64{s: h}
		h = r.Next()
	}
	return h
}

func MixString(s string) uint64 {
	h := uint64(1469598103934665603)
	for i := 0; i < len(s); i++ {
		h ^= uint64(s[i])
		h *= 1099511628211
	}
	return h
}

// Tape is the single source of every decision in a run. In generation mode values
// come from a forced prefix and then a SplitMix64 stream; in replay mode they are read
// back (reduced mod n; an exhausted tape yields 0). Every generator is written so that
// 0 is the simplest choice.
type Tape struct {
	Vals   []uint64 // values as drawn (already reduced)
	Labels []string // parallel to Vals when Trace is on
	Trace  bool

	replay bool
	in     []uint64
	pos    int
	rng    *SplitMix64
	forced []uint64
}

func NewGenTape(seed uint64, forced []uint64) *Tape {
	return &Tape{rng: NewSplitMix(seed), forced: forced}
}

func NewReplayTape(vals []uint64) *Tape {
	return &Tape{replay: true, in: vals}
}

// Draw returns a value in [0,n). n==0 or 1 always yields 0 (but still consumes a slot,
// so that tapes stay aligned when a range collapses).
func (t *Tape) Draw(n uint64, label string) uint64 {
	var v uint64
	if t.replay {
		if t.pos < len(t.in) {
			v = t.in[t.pos]
		}
	} else if t.pos < len(t.forced) {
		v = t.forced[t.pos]
	} else {
		v = t.rng.Next()
	}
	t.pos++
	if n <= 1 {
		v = 0
	} else {
		v %= n
	}
	t.Vals = append(t.Vals, v)
	if t.Trace {
		t.Labels = append(t.Labels, label)
	}
	return v
}

func (t *Tape) Int(n int, label string) int {
	if n < 0 {
		panic("tape: negative range " + label)
	}
	return int(t.Draw(uint64(n), label))
}

// Chance is true with probability about permille/1000; value 0 is always false.
func (t *Tape) Chance(permille int, label string) bool {
	v := t.Draw(1000, label)
	return v != 0 && int(v) <= permille
}

// Bool: 0 = false.
func (t *Tape) Bool(label string) bool { return t.Draw(2, label) == 1 }

// Range draws from [lo,hi] inclusive, lo being the simplest.
func (t *Tape) Range(lo, hi int64, label string) int64 {
	if hi < lo {
		panic("tape: bad range " + label)
	}
	return lo + int64(t.Draw(uint64(hi-lo)+1, label))
}

// U64 draws a full 64-bit value.
func (t *Tape) U64(label string) uint64 {
	hi := t.Draw(1<<32, label)
	lo := t.Draw(1<<32, label)
	return hi<<32 | lo
}

// Bytes fills n bytes from the tape (8 per draw is too coarse for shrinking, so one
// draw seeds a local stream; the bytes are a pure function of that one value).
func (t *Tape) Bytes(n int, label string) []byte {
	s := NewSplitMix(t.Draw(1<<62, label) + 1)
	out := make([]byte, 0, n+8)
	var b [8]byte
	for len(out) < n {
		binary.LittleEndian.PutUint64(b[:], s.Next())
		out = append(out, b[:]...)
	}
	return out[:n]
}

// SubRand returns a deterministic byte stream seeded by one draw (for IVs, AES keys,
// padding bytes: material whose value never matters to an oracle).
func (t *Tape) SubRand(label string) *DetReader {
	return &DetReader{s: NewSplitMix(t.Draw(1<<62, label) + 7)}
}

// NewDetReader returns a deterministic byte stream for a fixed seed.
func NewDetReader(seed uint64) *DetReader { return &DetReader{s: NewSplitMix(seed)} }

type DetReader struct {
	s   *SplitMix64
	buf []byte
}

func (d *DetReader) Read(p []byte) (int, error) {
	for i := range p {
		if len(d.buf) == 0 {
			var b [8]byte
			binary.LittleEndian.PutUint64(b[:], d.s.Next())
			d.buf = b[:]
		}
		p[i] = d.buf[0]
		d.buf = d.buf[1:]
	}
	return len(p), nil
}

func (t *Tape) Pos() int { return t.pos }

func (t *Tape) String() string { return fmt.Sprintf("tape(len=%d)", len(t.Vals)) }
