package core

// Shrink minimises a failing tape while fails(tape) keeps returning true (the caller
// makes "true" mean: same oracle, same violation class). Hypothesis-style passes:
// delete blocks, zero values, lower values. Bounded by maxEvals evaluations.
func Shrink(vals []uint64, fails func([]uint64) bool, maxEvals int) ([]uint64, int) {
	cur := append([]uint64(nil), vals...)
	evals := 0
	try := func(c []uint64) bool {
		if evals >= maxEvals {
			return false
		}
		evals++
		return fails(c)
	}
	// trailing zeros are free
	trim := func(c []uint64) []uint64 {
		for len(c) > 0 && c[len(c)-1] == 0 {
			c = c[:len(c)-1]
		}
		return c
	}
	cur = trim(cur)
	improved := true
	for improved && evals < maxEvals {
		improved = false
		// 1. delete blocks
		for size := len(cur) / 2; size >= 1; size /= 2 {
			for i := 0; i+size <= len(cur); {
				c := append(append([]uint64(nil), cur[:i]...), cur[i+size:]...)
				if try(c) {
					cur = trim(c)
					improved = true
				} else {
					i += size
				}
				if evals >= maxEvals {
					break
				}
			}
		}
		// 2. zero blocks, then single values
		for size := 8; size >= 1; size /= 2 {
			for i := 0; i+size <= len(cur); i += size {
				allZero := true
				for j := i; j < i+size; j++ {
					if cur[j] != 0 {
						allZero = false
					}
				}
				if allZero {
					continue
				}
				c := append([]uint64(nil), cur...)
				for j := i; j < i+size; j++ {
					c[j] = 0
				}
				if try(c) {
					cur = trim(c)
					improved = true
				}
			}
		}
		// 3. lower single values: try 1, half, minus one
		for i := 0; i < len(cur); i++ {
			v := cur[i]
			if v == 0 {
				continue
			}
			for _, nv := range []uint64{1, v / 2, v - 1} {
				if nv >= v {
					continue
				}
				c := append([]uint64(nil), cur...)
				c[i] = nv
				if try(c) {
					cur = c
					improved = true
					break
				}
			}
		}
	}
	return cur, evals
}
