package core

import (
	"crypto/sha256"
	"encoding/hex"
	"fmt"
	"sort"
	"strings"
	"time"
)

// Violation is what an oracle reports. Signature names the oracle and the
// discriminating facts of the case (never the seed), Observation is free-form detail.
type Violation struct {
	Property    string         `json:"property"`
	Oracle      string         `json:"oracle"`
	Signature   string         `json:"signature"`
	Observation map[string]any `json:"observation"`
}

// Run is the record of one simulated run. Everything that goes into the digest is
// written through Logf; nothing in logging draws from the tape or reads a real clock.
type Run struct {
	Prop  string
	Tape  *Tape
	Sim   *Sim
	trace []string
	hash  [32]byte
	hinit bool
	keep  bool

	Faults  map[string]int // fault kinds that actually fired
	Probes  map[string]int // "this condition was reached" counters
	shape   []string       // shape signature parts (layout knobs x fault chain x config x outcome)
	Steps   int            // SP decisions taken
	Viol    *Violation
	Sample  map[string]any
	Harness string // non-empty => harness trouble (exit 2), never a violation
}

func NewRun(prop string, tape *Tape, keepTrace bool) *Run {
	r := &Run{Prop: prop, Tape: tape, Faults: map[string]int{}, Probes: map[string]int{}, keep: keepTrace}
	r.Sim = NewSim()
	return r
}

func (r *Run) Logf(format string, args ...any) {
	line := fmt.Sprintf(format, args...)
	line = fmt.Sprintf("%d t=%d %s", r.Sim.Seq(), int64(r.Sim.Now()), line)
	h := sha256.New()
	h.Write(r.hash[:])
	h.Write([]byte(line))
	copy(r.hash[:], h.Sum(nil))
	if r.keep {
		if len(line) > 600 {
			line = line[:600] + "…"
		}
		r.trace = append(r.trace, line)
	}
}

func (r *Run) Digest() string  { return hex.EncodeToString(r.hash[:8]) }
func (r *Run) Trace() []string { return r.trace }

func (r *Run) Fault(kind string) { r.Faults[kind]++; r.shape = append(r.shape, "f:"+kind) }
func (r *Run) Probe(name string) { r.Probes[name]++ }
func (r *Run) Shape(part string) { r.shape = append(r.shape, part) }

// ShapeSig is the stated measure of "distinct state": hash of layout knobs, fault chain,
// configuration knobs and outcome classes recorded during the run.
func (r *Run) ShapeSig() string {
	h := sha256.Sum256([]byte(strings.Join(r.shape, "|")))
	return hex.EncodeToString(h[:8])
}

func (r *Run) NonTrivial() bool { return r.Steps > 0 || len(r.Faults) > 0 }

// Fail records the first violation of the run.
func (r *Run) Fail(oracle, signature string, obs map[string]any) {
	if r.Viol != nil {
		return
	}
	r.Viol = &Violation{Property: r.Prop, Oracle: oracle, Signature: signature, Observation: obs}
	r.Logf("VIOLATION %s %s", oracle, signature)
}

func (r *Run) Failed() bool { return r.Viol != nil }

func (r *Run) HarnessError(format string, args ...any) {
	if r.Harness == "" {
		r.Harness = fmt.Sprintf(format, args...)
	}
}

// ---------------------------------------------------------------------------------
// Discrete-event core: a heap of (time, seq, event); time only moves when an event is
// popped. "Now" is simulated nanoseconds since the run's epoch.

type Event struct {
	At  time.Duration
	Seq uint64
	Run func()
}

type Sim struct {
	now   time.Duration
	seq   uint64
	q     []Event
	Epoch time.Time
}

func NewSim() *Sim { return &Sim{Epoch: time.Date(2030, 1, 1, 0, 0, 0, 0, time.UTC)} }

func (s *Sim) Now() time.Duration { return s.now }
func (s *Sim) Seq() uint64        { return s.seq }
func (s *Sim) Time() time.Time    { return s.Epoch.Add(s.now) }

func (s *Sim) After(d time.Duration, f func()) {
	if d < 0 {
		d = 0
	}
	s.seq++
	s.q = append(s.q, Event{At: s.now + d, Seq: s.seq, Run: f})
	// sift up
	i := len(s.q) - 1
	for i > 0 {
		p := (i - 1) / 2
		if !less(s.q[i], s.q[p]) {
			break
		}
		s.q[i], s.q[p] = s.q[p], s.q[i]
		i = p
	}
}

func (s *Sim) At(t time.Duration, f func()) { s.After(t-s.now, f) }

func less(a, b Event) bool {
	if a.At != b.At {
		return a.At < b.At
	}
	return a.Seq < b.Seq
}

func (s *Sim) pop() Event {
	top := s.q[0]
	n := len(s.q) - 1
	s.q[0] = s.q[n]
	s.q = s.q[:n]
	i := 0
	for {
		l, r, m := 2*i+1, 2*i+2, i
		if l < n && less(s.q[l], s.q[m]) {
			m = l
		}
		if r < n && less(s.q[r], s.q[m]) {
			m = r
		}
		if m == i {
			break
		}
		s.q[i], s.q[m] = s.q[m], s.q[i]
		i = m
	}
	return top
}

// RunAll pops events until the queue is empty, stop() is true or maxEvents is hit.
func (s *Sim) RunAll(maxEvents int, stop func() bool) int {
	n := 0
	for len(s.q) > 0 && n < maxEvents {
		if stop != nil && stop() {
			break
		}
		ev := s.pop()
		if ev.At > s.now {
			s.now = ev.At
		}
		s.seq++
		ev.Run()
		n++
	}
	return n
}

// Advance moves simulated time forward without an event (used by linear scenarios).
func (s *Sim) Advance(d time.Duration) {
	if d > 0 {
		s.now += d
	}
	s.seq++
}

// SetNow places the clock (linear scenarios place deliveries on exact instants).
func (s *Sim) SetNow(t time.Time) { s.now = t.Sub(s.Epoch); s.seq++ }

// ---------------------------------------------------------------------------------

func SortedKeys[M ~map[string]V, V any](m M) []string {
	ks := make([]string, 0, len(m))
	for k := range m {
		ks = append(ks, k)
	}
	sort.Strings(ks)
	return ks
}

// LibraryPanicSite inspects a stack captured in a deferred recover: if, going down from the panic, a frame
// of the library under test comes before any harness frame, it returns that function's name.
func LibraryPanicSite(stack string) string {
	lines := strings.Split(stack, "\n")
	seenPanic := false
	for _, l := range lines {
		if strings.HasPrefix(l, "\t") || l == "" {
			continue
		}
		if !seenPanic {
			if strings.HasPrefix(l, "panic(") {
				seenPanic = true
			}
			continue
		}
		switch {
		case strings.HasPrefix(l, "github.com/russellhaering/gosaml2"):
			fn := l
			if i := strings.LastIndex(fn, "("); i > 0 {
				fn = fn[:i]
			}
			return strings.TrimPrefix(fn, "github.com/russellhaering/")
		case strings.HasPrefix(l, "verifsim/"), strings.HasPrefix(l, "main."):
			return ""
		}
	}
	return ""
}
