// Command fed is the simulation worker and driver (build A of DESIGN.md).
//
//	fed driver  -prop C05 -tier quick            fan out workers, shrink, evidence, exit code
//	fed worker  -prop C05 -tier quick -idx 0 -of 16 -seed N -out file.json
//	fed replay  -file replays/C05-....json       re-run a replay file in this fresh process
//	fed selftest -props C05,C08                  determinism self-test
package main

import (
	"context"
	"crypto/sha256"
	"encoding/hex"
	"encoding/json"
	"flag"
	"fmt"
	"os"
	"os/exec"
	"path/filepath"
	"runtime"
	"runtime/debug"
	"sort"
	"strconv"
	"strings"
	"syscall"
	"time"

	"verifsim/core"
	"verifsim/props"
)

type Failure struct {
	Seed   uint64          `json:"seed"`
	Worker int             `json:"worker"`
	Of     int             `json:"of"`
	RunIdx int             `json:"run_index"`
	Tape   []uint64        `json:"tape"`
	Viol   *core.Violation `json:"violation"`
}

type WorkerOut struct {
	Prop       string          `json:"prop"`
	Runs       int             `json:"runs"`
	NonTrivial int             `json:"nontrivial"`
	Directed   int             `json:"directed"`
	Shapes     []string        `json:"shapes"`  // distinct shape signatures of non-trivial runs
	Digests    []string        `json:"digests"` // distinct run digests
	Faults     map[string]int  `json:"faults"`
	Probes     map[string]int  `json:"probes"`
	SimNanos   int64           `json:"sim_nanos"`
	Failures   []Failure       `json:"failures"`
	Samples    []any           `json:"samples"`
	Harness    string          `json:"harness"`
	WallS      float64         `json:"wall_s"`
	Journal    json.RawMessage `json:"-"`
}

// execRun executes one run from a tape, recovering harness panics into Harness errors.
func execRun(p *props.Prop, tape *core.Tape, keep bool) (r *core.Run) {
	r = core.NewRun(p.ID, tape, keep)
	defer func() {
		if rec := recover(); rec != nil {
			st := string(debug.Stack())
			if fn := core.LibraryPanicSite(st); fn != "" {
				// the library itself panicked under a call the scenario makes outside a guard (ordinary,
				// well-formed use): that is an outcome of the system under test, not harness trouble
				r.Fail("totality", p.ID+"/library-panic-under-ordinary-use/"+fn, map[string]any{"panic": fmt.Sprint(rec), "stack": trimStack(st)})
				return
			}
			r.HarnessError("harness panic: %v\n%s", rec, trimStack(st))
		}
	}()
	p.Run(r)
	return r
}

func trimStack(s string) string {
	if len(s) > 3000 {
		return s[:3000]
	}
	return s
}

func runSeed(base uint64, prop string, idx int) uint64 {
	return core.Mix(base, core.MixString(prop), uint64(idx))
}

func worker(args []string) int {
	fs := flag.NewFlagSet("worker", flag.ExitOnError)
	propID := fs.String("prop", "", "")
	tier := fs.String("tier", "quick", "")
	idx := fs.Int("idx", 0, "")
	of := fs.Int("of", 1, "")
	seed := fs.Uint64("seed", 1, "")
	out := fs.String("out", "", "")
	secs := fs.Float64("secs", 0, "wall budget for starting new runs (0 = none)")
	runsOverride := fs.Int("runs", -1, "")
	fs.Parse(args)
	p := props.Registry[*propID]
	if p == nil {
		fmt.Fprintln(os.Stderr, "unknown property", *propID)
		return 2
	}
	props.SetTier(*tier)
	start := time.Now()
	wo := &WorkerOut{Prop: p.ID, Faults: map[string]int{}, Probes: map[string]int{}}
	shapes := map[string]bool{}
	digests := map[string]bool{}
	var directed [][]uint64
	if p.Directed != nil {
		directed = p.Directed(*tier)
	}
	random := p.RandomRuns[*tier]
	if *runsOverride >= 0 {
		random = *runsOverride
	}
	total := len(directed) + random
	journal := *out + ".journal"
	sigSeen := map[string]int{}
	for j := *idx; j < total; j += *of {
		if *secs > 0 && j >= len(directed) && time.Since(start).Seconds() > *secs {
			break
		}
		var forced []uint64
		if j < len(directed) {
			forced = directed[j]
			wo.Directed++
		}
		rs := runSeed(*seed, p.ID, j)
		// crash journal: lets the driver turn a fatal runtime failure into a replayable case
		if *out != "" {
			jb, _ := json.Marshal(map[string]any{"seed": rs, "run_index": j, "forced": forced})
			os.WriteFile(journal, jb, 0o644)
		}
		tape := core.NewGenTape(rs, forced)
		r := execRun(p, tape, false)
		wo.Runs++
		if r.Harness != "" {
			wo.Harness = fmt.Sprintf("run %d seed %d: %s", j, rs, r.Harness)
			break
		}
		digests[r.Digest()] = true
		if r.NonTrivial() {
			wo.NonTrivial++
			shapes[r.ShapeSig()] = true
		}
		for k, v := range r.Faults {
			wo.Faults[k] += v
		}
		for k, v := range r.Probes {
			wo.Probes[k] += v
		}
		wo.SimNanos += int64(r.Sim.Now())
		if r.Sample != nil && (len(wo.Samples) < 2 || (r.Viol != nil && len(wo.Samples) < 4)) {
			wo.Samples = append(wo.Samples, r.Sample)
		}
		if r.Viol != nil {
			sigSeen[r.Viol.Signature]++
			if sigSeen[r.Viol.Signature] <= 2 && len(wo.Failures) < 12 {
				wo.Failures = append(wo.Failures, Failure{Seed: rs, Worker: *idx, Of: *of, RunIdx: j, Tape: append([]uint64(nil), tape.Vals...), Viol: r.Viol})
			}
		}
	}
	os.Remove(journal)
	for k := range shapes {
		wo.Shapes = append(wo.Shapes, k)
	}
	for k := range digests {
		wo.Digests = append(wo.Digests, k)
	}
	sort.Strings(wo.Shapes)
	sort.Strings(wo.Digests)
	wo.WallS = time.Since(start).Seconds()
	b, _ := json.Marshal(wo)
	if *out == "" {
		os.Stdout.Write(b)
	} else if err := os.WriteFile(*out, b, 0o644); err != nil {
		fmt.Fprintln(os.Stderr, err)
		return 2
	}
	return 0
}

// ---------------------------------------------------------------------------------------

type KnownFinding struct {
	Property        string         `json:"property"`
	SignaturePrefix string         `json:"signature_prefix"`
	Where           map[string]any `json:"where,omitempty"` // observation keys that must match
	Description     string         `json:"description"`
}

type KnownFile struct {
	Findings []KnownFinding `json:"findings"`
	Fixed    []string       `json:"fixed"`
}

func loadKnown(verifDir string) KnownFile {
	var kf KnownFile
	b, err := os.ReadFile(filepath.Join(verifDir, "known_findings.json"))
	if err == nil {
		json.Unmarshal(b, &kf)
	}
	return kf
}

func (kf KnownFile) match(v *core.Violation) *KnownFinding {
	for i := range kf.Findings {
		f := &kf.Findings[i]
		if f.Property != v.Property || !strings.HasPrefix(v.Signature, f.SignaturePrefix) {
			continue
		}
		ok := true
		for k, want := range f.Where {
			if fmt.Sprint(v.Observation[k]) != fmt.Sprint(want) {
				ok = false
			}
		}
		if ok {
			return f
		}
	}
	return nil
}

// PreludeRun is an earlier run of the same worker process (generation-mode tape): some
// violations depend on process-wide state left behind by the history of earlier runs.
type PreludeRun struct {
	Seed   uint64   `json:"seed"`
	Forced []uint64 `json:"forced"`
}

type ReplayFile struct {
	Prelude         []PreludeRun    `json:"prelude,omitempty"`
	Tier            string          `json:"tier"`
	Property        string          `json:"property"`
	Engine          string          `json:"engine"`
	Oracle          string          `json:"oracle"`
	Signature       string          `json:"signature"`
	Seed            uint64          `json:"seed"`
	Tape            []uint64        `json:"tape"`
	TapeLabels      []string        `json:"tape_labels"`
	Trace           []string        `json:"trace"`
	Observation     map[string]any  `json:"observation"`
	Go              string          `json:"go"`
	OrigTapeLen     int             `json:"original_tape_len"`
	ShrinkEvals     int             `json:"shrink_evals"`
	Reproducibility string          `json:"reproducibility,omitempty"`
	Violation       *core.Violation `json:"violation"`
}

func verifDir() string {
	if d := os.Getenv("VERIF_DIR"); d != "" {
		return d
	}
	return "/verif"
}

func driver(args []string) int {
	fs := flag.NewFlagSet("driver", flag.ExitOnError)
	propID := fs.String("prop", "", "")
	tier := fs.String("tier", "quick", "")
	workers := fs.Int("workers", 0, "")
	secs := fs.Float64("secs", 0, "")
	runs := fs.Int("runs", -1, "")
	noEvidence := fs.Bool("no-evidence", false, "")
	fs.Parse(args)
	p := props.Registry[*propID]
	if p == nil {
		fmt.Fprintln(os.Stderr, "unknown property", *propID)
		return 2
	}
	seed := uint64(1)
	if s := os.Getenv("VERIF_SEED"); s != "" {
		if v, err := strconv.ParseUint(s, 10, 64); err == nil {
			seed = v
		} else if v, err := strconv.ParseInt(s, 10, 64); err == nil {
			seed = uint64(v)
		}
	}
	props.SetTier(*tier)
	nw := *workers
	if nw <= 0 {
		nw = runtime.NumCPU()
		if nw > 16 {
			nw = 16
		}
	}
	start := time.Now()
	fmt.Printf("VERIF_SEED=%d property=%s tier=%s workers=%d go=%s\n", seed, p.ID, *tier, nw, runtime.Version())
	tmp, err := os.MkdirTemp("", "fed-"+p.ID+"-")
	if err != nil {
		fmt.Fprintln(os.Stderr, err)
		return 2
	}
	defer os.RemoveAll(tmp)
	self, _ := os.Executable()
	type res struct {
		i   int
		err error
		out []byte
	}
	ch := make(chan res, nw)
	for i := 0; i < nw; i++ {
		go func(i int) {
			outf := filepath.Join(tmp, fmt.Sprintf("w%d.json", i))
			a := []string{"worker", "-prop", p.ID, "-tier", *tier, "-idx", fmt.Sprint(i), "-of", fmt.Sprint(nw), "-seed", fmt.Sprint(seed), "-out", outf,
				"-secs", fmt.Sprint(*secs), "-runs", fmt.Sprint(*runs)}
			// watchdog: a worker that does not come back (a run that never ends) is trouble, not a verdict
			limit := 30 * time.Minute
			if *tier == "thorough" {
				limit = 6 * time.Hour
			}
			if v, err := strconv.Atoi(os.Getenv("VERIF_WATCHDOG_SEC")); err == nil && v > 0 {
				limit = time.Duration(v) * time.Second
			}
			ctx, cancel := context.WithTimeout(context.Background(), limit)
			defer cancel()
			cmd := exec.CommandContext(ctx, self, a...)
			cmd.Env = append(os.Environ(), "GOMAXPROCS=1")
			cmd.SysProcAttr = &syscall.SysProcAttr{Pdeathsig: syscall.SIGKILL}
			ob, err := cmd.CombinedOutput()
			if ctx.Err() != nil {
				jb, _ := os.ReadFile(outf + ".journal")
				fmt.Fprintf(os.Stderr, "WATCHDOG: worker %d of %s did not finish within %s; run in progress: %s\n", i, p.ID, limit, strings.TrimSpace(string(jb)))
				os.Exit(2)
			}
			ch <- res{i, err, ob}
		}(i)
	}
	agg := &WorkerOut{Prop: p.ID, Faults: map[string]int{}, Probes: map[string]int{}}
	shapes := map[string]bool{}
	digests := map[string]bool{}
	var crashes []Failure
	for k := 0; k < nw; k++ {
		rr := <-ch
		outf := filepath.Join(tmp, fmt.Sprintf("w%d.json", rr.i))
		b, rerr := os.ReadFile(outf)
		if rr.err != nil || rerr != nil {
			// worker died: a fatal runtime failure inside a run. The crash journal names the run.
			jb, jerr := os.ReadFile(outf + ".journal")
			if jerr == nil {
				var j struct {
					Seed   uint64   `json:"seed"`
					RunIdx int      `json:"run_index"`
					Forced []uint64 `json:"forced"`
				}
				json.Unmarshal(jb, &j)
				crashes = append(crashes, Failure{Seed: j.Seed, RunIdx: j.RunIdx, Tape: j.Forced,
					Viol: &core.Violation{Property: p.ID, Oracle: "fatal", Signature: p.ID + "/fatal-runtime-exit", Observation: map[string]any{"output": trimStack(string(rr.out))}}})
				continue
			}
			fmt.Fprintf(os.Stderr, "worker %d failed: %v\n%s\n", rr.i, rr.err, trimStack(string(rr.out)))
			return 2
		}
		var wo WorkerOut
		if err := json.Unmarshal(b, &wo); err != nil {
			fmt.Fprintln(os.Stderr, "bad worker output:", err)
			return 2
		}
		if wo.Harness != "" {
			fmt.Fprintf(os.Stderr, "HARNESS-ERROR %s\n", wo.Harness)
			return 2
		}
		agg.Runs += wo.Runs
		agg.NonTrivial += wo.NonTrivial
		agg.Directed += wo.Directed
		agg.SimNanos += wo.SimNanos
		for _, s := range wo.Shapes {
			shapes[s] = true
		}
		for _, s := range wo.Digests {
			digests[s] = true
		}
		for k, v := range wo.Faults {
			agg.Faults[k] += v
		}
		for k, v := range wo.Probes {
			agg.Probes[k] += v
		}
		agg.Failures = append(agg.Failures, wo.Failures...)
		if len(agg.Samples) < 4 {
			agg.Samples = append(agg.Samples, wo.Samples...)
		}
	}
	// must-hit probes: counted on the simulator side, so an edit to /repo cannot turn them off
	for _, mh := range p.MustHit {
		if agg.Faults[mh] == 0 && agg.Probes[mh] == 0 && len(agg.Failures) == 0 && len(crashes) == 0 {
			fmt.Fprintf(os.Stderr, "HARNESS-ERROR must-hit probe %q stayed at zero (vacuous check)\n", mh)
			return 2
		}
	}
	sort.Slice(agg.Failures, func(i, j int) bool { return agg.Failures[i].RunIdx < agg.Failures[j].RunIdx })

	// group failures by signature, shrink one per signature
	kf := loadKnown(verifDir())
	bySig := map[string]Failure{}
	var sigOrder []string
	for _, f := range append(agg.Failures, crashes...) {
		if _, ok := bySig[f.Viol.Signature]; !ok {
			bySig[f.Viol.Signature] = f
			sigOrder = append(sigOrder, f.Viol.Signature)
		}
	}
	exit := 0
	redoWithHistory := map[string]func() int{}
	violations := 0
	knownHit := map[string]bool{}
	os.MkdirAll(filepath.Join(verifDir(), "replays"), 0o755)
	for si, sig := range sigOrder {
		f := bySig[sig]
		if si >= 8 {
			break
		}
		rf := ReplayFile{Tier: *tier, Property: p.ID, Engine: p.Engine, Oracle: f.Viol.Oracle, Signature: sig, Seed: f.Seed, Go: runtime.Version(), OrigTapeLen: len(f.Tape), Violation: f.Viol}
		min := f.Tape
		if f.Viol.Oracle != "fatal" {
			same := func(vals []uint64) bool {
				rr := execRun(p, core.NewReplayTape(vals), false)
				return rr.Harness == "" && rr.Viol != nil && rr.Viol.Signature == sig
			}
			shrinkBudget := 1500
			if f.Viol.Oracle == "race" {
				// the race detector reports each race once per process: evaluate in fresh processes
				shrinkBudget = 120
				same = func(vals []uint64) bool {
					tf := ReplayFile{Tier: *tier, Property: p.ID, Engine: p.Engine, Signature: sig, Tape: vals}
					tb, _ := json.Marshal(tf)
					tpath := filepath.Join(tmp, "race-eval.json")
					os.WriteFile(tpath, tb, 0o644)
					cmd := replayCmd(self, tpath)
					cmd.Env = append(os.Environ(), "GOMAXPROCS=1")
					ob, _ := cmd.CombinedOutput()
					return strings.Contains(string(ob), "REPRODUCED")
				}
			}
			historyDependent := false
			irreproducible := false
			_ = irreproducible
			useHistory := func() int {
				// not a function of its own tape: the violation depends on state left behind by
				// earlier runs of the same worker process. Rebuild that history and minimise it.
				var directed [][]uint64
				if p.Directed != nil {
					directed = p.Directed(*tier)
				}
				var prelude []PreludeRun
				for j := f.Worker; j < f.RunIdx; j += f.Of {
					var forced []uint64
					if j < len(directed) {
						forced = directed[j]
					}
					prelude = append(prelude, PreludeRun{Seed: runSeed(seed, p.ID, j), Forced: forced})
				}
				tryPrelude := func(pl []PreludeRun) bool {
					tf := ReplayFile{Tier: *tier, Property: p.ID, Engine: p.Engine, Signature: sig, Tape: f.Tape, Prelude: pl}
					tb, _ := json.Marshal(tf)
					tpath := filepath.Join(tmp, "hist.json")
					os.WriteFile(tpath, tb, 0o644)
					cmd := replayCmd(self, tpath)
					cmd.Env = append(os.Environ(), "GOMAXPROCS=1")
					ob, _ := cmd.CombinedOutput()
					return strings.Contains(string(ob), "REPRODUCED")
				}
				if !tryPrelude(prelude) {
					if f.Viol.Oracle == "race" || p.Engine == "conc" {
						// the race detector saw it, but the change under test is itself non-deterministic
						// (sync.Pool, real timing): keep the original tape and say how often it reproduces
						k := 0
						for a := 0; a < 6; a++ {
							if tryPrelude(nil) {
								k++
							}
						}
						rf.Tape = f.Tape
						rf.Violation = f.Viol
						rf.Observation = f.Viol.Observation
						rf.Reproducibility = fmt.Sprintf("%d of 6 fresh-process attempts (the library change is not a function of the schedule alone)", k)
						historyDependent = true
						irreproducible = true
						return 0
					}
					fmt.Fprintf(os.Stderr, "HARNESS-ERROR failure does not replay from its tape nor from its process history: %s (seed %d)\n", sig, f.Seed)
					return 2
				}
				// ddmin over the prelude (bounded)
				evals := 0
				for chunk := (len(prelude) + 1) / 2; chunk >= 1 && evals < 80; chunk /= 2 {
					for i := 0; i+chunk <= len(prelude) && evals < 80; {
						cand := append(append([]PreludeRun(nil), prelude[:i]...), prelude[i+chunk:]...)
						evals++
						if tryPrelude(cand) {
							prelude = cand
						} else {
							i += chunk
						}
					}
				}
				rf.Prelude = prelude
				rf.ShrinkEvals = evals
				rf.Tape = f.Tape
				rf.TapeLabels = nil
				rf.Violation = f.Viol
				rf.Observation = f.Viol.Observation
				rf.Trace = []string{fmt.Sprintf("history-dependent: %d earlier runs of the same process are replayed first", len(rf.Prelude))}
				historyDependent = true
				return 0
			}
			redoWithHistory[sig] = useHistory
			if !same(f.Tape) {
				if rc := useHistory(); rc != 0 {
					return rc
				}
			}
			var rr *core.Run
			if !historyDependent {
				var evals int
				min, evals = core.Shrink(f.Tape, same, shrinkBudget)
				rf.ShrinkEvals = evals
				tp := core.NewReplayTape(min)
				tp.Trace = true
				rr = execRun(p, tp, true)
				rf.Tape = tp.Vals
				rf.TapeLabels = tp.Labels
				rf.Trace = rr.Trace()
				if rr.Viol != nil && rr.Viol.Signature == sig {
					rf.Observation = rr.Viol.Observation
					rf.Violation = rr.Viol
				} else {
					rf.Observation = f.Viol.Observation
				}
			}
		} else {
			rf.Tape = min
			rf.Observation = f.Viol.Observation
		}
		h := sha256.Sum256([]byte(sig))
		name := fmt.Sprintf("%s-%s-%d.json", p.ID, hex.EncodeToString(h[:4]), f.Seed)
		path := filepath.Join(verifDir(), "replays", name)
		rb, _ := json.MarshalIndent(rf, "", " ")
		os.WriteFile(path, rb, 0o644)
		// the minimised file must reproduce in a fresh process
		if f.Viol.Oracle != "fatal" {
			fresh := func() (bool, string) {
				// a change to the library may itself be non-deterministic (wall clock, real goroutines):
				// a few attempts are allowed before the replay is called irreproducible
				var last string
				for attempt := 0; attempt < 5; attempt++ {
					cmd := replayCmd(self, path)
					cmd.Env = append(os.Environ(), "GOMAXPROCS=1")
					ob, _ := cmd.CombinedOutput()
					last = string(ob)
					// a replay that ends in another violation of the same property (e.g. the race
					// detector names a different pair of accesses first) still is a violation
					if strings.Contains(last, "REPRODUCED") || strings.Contains(last, "DIFFERENT violation") {
						return true, last
					}
				}
				return false, last
			}
			ok, ob := fresh()
			if !ok && len(rf.Prelude) == 0 {
				// the driver's own process history helped the in-process replay: fall back to the
				// worker's process history
				if rc := redoWithHistory[sig](); rc != 0 {
					return rc
				}
				rb, _ = json.MarshalIndent(rf, "", " ")
				os.WriteFile(path, rb, 0o644)
				ok, ob = fresh()
			}
			if !ok && rf.Reproducibility == "" {
				fmt.Fprintf(os.Stderr, "HARNESS-ERROR minimised replay did not reproduce in a fresh process: %s\n%s\n", path, trimStack(ob))
				return 2
			}
		}
		if k := kf.match(rf.Violation); k != nil {
			if !knownHit[k.SignaturePrefix] {
				fmt.Printf("KNOWN-FINDING: property=%s %s [%s] replay=%s\n", p.ID, k.Description, sig, path)
				knownHit[k.SignaturePrefix] = true
			}
			continue
		}
		violations++
		exit = 1
		fmt.Printf("VIOLATION property=%s replay=%s\n", p.ID, path)
		fmt.Printf("  signature: %s\n  observation: %s\n  tape: %d values (from %d), seed %d\n", sig, trunc(mustJSON(rf.Observation), 600), len(rf.Tape), rf.OrigTapeLen, f.Seed)
	}
	wall := time.Since(start).Seconds()
	distinct := len(shapes)
	fmt.Printf("runs=%d directed=%d nontrivial=%d distinct_shapes=%d distinct_digests=%d faults=%s wall=%.1fs violations=%d known=%d\n",
		agg.Runs, agg.Directed, agg.NonTrivial, distinct, len(digests), mustJSON(agg.Faults), wall, violations, len(knownHit))
	if !*noEvidence {
		if p.Assumptions == nil {
			p.Assumptions = []string{}
		}
		if agg.Samples == nil {
			agg.Samples = []any{}
		}
		ev := map[string]any{
			"property_id": p.ID,
			"tier":        *tier,
			"seed":        int64(seed & 0x7fffffffffffffff),
			"level":       p.Level,
			"coverage": map[string]any{
				"evaluations":          agg.Runs,
				"distinct_nontrivial":  distinct,
				"rule":                 p.Rule,
				"samples":              agg.Samples,
				"directed_cases":       agg.Directed,
				"nontrivial_runs":      agg.NonTrivial,
				"distinct_run_digests": len(digests),
				"runs_per_hour":        int(float64(agg.Runs) / wall * 3600),
				"simulated_time_s":     float64(agg.SimNanos) / 1e9,
				"faults_fired":         agg.Faults,
				"probes":               agg.Probes,
				"must_hit":             p.MustHit,
				"components_real":      p.Real,
				"components_stub":      p.Stub,
				"engine":               p.Engine,
				"workers":              nw,
				"go":                   runtime.Version(),
				"exhaustive":           false,
			},
			"assumptions":            p.Assumptions,
			"wall_s":                 wall,
			"violations":             violations,
			"known_findings_matched": len(knownHit),
		}
		os.MkdirAll(filepath.Join(verifDir(), "evidence"), 0o755)
		eb, _ := json.MarshalIndent(ev, "", " ")
		if err := os.WriteFile(filepath.Join(verifDir(), "evidence", p.ID+".json"), eb, 0o644); err != nil {
			fmt.Fprintln(os.Stderr, err)
			return 2
		}
	}
	return exit
}

func mustJSON(v any) string {
	b, _ := json.Marshal(v)
	return string(b)
}

func trunc(s string, n int) string {
	if len(s) > n {
		return s[:n] + "…"
	}
	return s
}

func replay(args []string) int {
	fs := flag.NewFlagSet("replay", flag.ExitOnError)
	file := fs.String("file", "", "")
	quiet := fs.Bool("quiet", false, "")
	fs.Parse(args)
	b, err := os.ReadFile(*file)
	if err != nil {
		fmt.Fprintln(os.Stderr, err)
		return 2
	}
	var rf ReplayFile
	if err := json.Unmarshal(b, &rf); err != nil {
		fmt.Fprintln(os.Stderr, err)
		return 2
	}
	p := props.Registry[rf.Property]
	if p == nil {
		fmt.Fprintln(os.Stderr, "unknown property", rf.Property)
		return 2
	}
	props.SetTier(rf.Tier)
	for _, pr := range rf.Prelude {
		execRun(p, core.NewGenTape(pr.Seed, pr.Forced), false)
	}
	tp := core.NewReplayTape(rf.Tape)
	tp.Trace = true
	r := execRun(p, tp, true)
	if !*quiet {
		for _, l := range r.Trace() {
			fmt.Println(l)
		}
	}
	if r.Harness != "" {
		fmt.Println("HARNESS-ERROR", r.Harness)
		return 2
	}
	if r.Viol == nil {
		fmt.Println("NOT-REPRODUCED: the run completed without a violation")
		return 0
	}
	if r.Viol.Signature != rf.Signature {
		fmt.Printf("DIFFERENT violation: %s (file has %s)\n", r.Viol.Signature, rf.Signature)
		fmt.Printf("VIOLATION property=%s replay=%s\n", rf.Property, *file)
		return 1
	}
	fmt.Printf("REPRODUCED %s\nVIOLATION property=%s replay=%s\n", r.Viol.Signature, rf.Property, *file)
	if !*quiet {
		fmt.Println("observation:", mustJSON(r.Viol.Observation))
	}
	return 1
}

// selftest: same seeds twice must give the same digests (the determinism proof is run
// across fresh processes and GOMAXPROCS values by the check script).
func digestsCmd(args []string) int {
	fs := flag.NewFlagSet("digests", flag.ExitOnError)
	propID := fs.String("prop", "", "")
	tier := fs.String("tier", "quick", "")
	n := fs.Int("n", 64, "")
	seed := fs.Uint64("seed", 1, "")
	traceIdx := fs.Int("trace", -1, "print the trace of this run index")
	dirIdx := fs.Int("directed", -1, "run only this directed case (negative: counted from the end) and print its trace")
	forcedStr := fs.String("forced", "", "comma-separated forced prefix: run it once and print its trace")
	dirSet := false
	fs.Visit(func(f *flag.Flag) { dirSet = dirSet || f.Name == "directed" })
	fs.Parse(args)
	fs.Visit(func(f *flag.Flag) { dirSet = dirSet || f.Name == "directed" })
	p := props.Registry[*propID]
	if p == nil {
		return 2
	}
	props.SetTier(*tier)
	var directed [][]uint64
	if p.Directed != nil {
		directed = p.Directed(*tier)
	}
	if *forcedStr != "" {
		var forced []uint64
		for _, f := range strings.Split(*forcedStr, ",") {
			v, err := strconv.ParseUint(strings.TrimSpace(f), 10, 64)
			if err != nil {
				return 2
			}
			forced = append(forced, v)
		}
		r := execRun(p, core.NewGenTape(runSeed(*seed, p.ID, 0), forced), true)
		for _, l := range r.Trace() {
			fmt.Println("   ", l)
		}
		v := "-"
		if r.Viol != nil {
			v = r.Viol.Signature
		}
		fmt.Printf("forced=%v %s %s %s\n", forced, r.Digest(), v, r.Harness)
		return 0
	}
	if dirSet {
		k := *dirIdx
		if k < 0 {
			k += len(directed)
		}
		if k < 0 || k >= len(directed) {
			return 2
		}
		r := execRun(p, core.NewGenTape(runSeed(*seed, p.ID, k), directed[k]), true)
		for _, l := range r.Trace() {
			fmt.Println("   ", l)
		}
		v := "-"
		if r.Viol != nil {
			v = r.Viol.Signature
		}
		fmt.Printf("directed %d/%d forced=%v %s %s %s\n", k, len(directed), directed[k], r.Digest(), v, r.Harness)
		return 0
	}
	for j := 0; j < *n; j++ {
		var forced []uint64
		// alternate directed and random runs
		if j%2 == 0 && j/2 < len(directed) {
			forced = directed[(j/2*7919)%len(directed)]
		}
		rs := runSeed(*seed, p.ID, j)
		r := execRun(p, core.NewGenTape(rs, forced), j == *traceIdx)
		if j == *traceIdx {
			for _, l := range r.Trace() {
				fmt.Println("   ", l)
			}
		}
		v := "-"
		if r.Viol != nil {
			v = r.Viol.Signature
		}
		fmt.Printf("%d %s %s %s %s\n", j, r.Digest(), r.ShapeSig(), v, r.Harness)
	}
	return 0
}

func main() {
	if len(os.Args) < 2 {
		fmt.Fprintln(os.Stderr, "usage: fed driver|worker|replay|digests ...")
		os.Exit(2)
	}
	var rc int
	switch os.Args[1] {
	case "driver":
		rc = driver(os.Args[2:])
	case "worker":
		rc = worker(os.Args[2:])
	case "replay":
		rc = replay(os.Args[2:])
	case "digests":
		rc = digestsCmd(os.Args[2:])
	case "list":
		var ids []string
		for k := range props.Registry {
			ids = append(ids, k)
		}
		sort.Strings(ids)
		fmt.Println(strings.Join(ids, " "))
	default:
		fmt.Fprintln(os.Stderr, "unknown command", os.Args[1])
		rc = 2
	}
	os.Exit(rc)
}

// replayCmd runs a replay in a fresh process, bounded in time (a replay that never ends counts as not reproduced).
func replayCmd(self, path string) *exec.Cmd {
	ctx, _ := context.WithTimeout(context.Background(), 15*time.Minute)
	cmd := exec.CommandContext(ctx, self, "replay", "-file", path, "-quiet")
	cmd.SysProcAttr = &syscall.SysProcAttr{Pdeathsig: syscall.SIGKILL}
	return cmd
}
