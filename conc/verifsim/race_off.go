//go:build !race

package verifsim

import "runtime"

const RaceEnabled = false

func raceOff()     {}
func raceOn()      {}
func yieldThread() { runtime.Gosched() }
