//go:build race

package verifsim

import "runtime"

const RaceEnabled = true

func raceOff()     { runtime.RaceDisable() }
func raceOn()      { runtime.RaceEnable() }
func yieldThread() { runtime.Gosched() }
