// Package verifsim is dropped into the instrumented scratch copy of gosaml2 by the
// controlled-concurrency engine. With no scheduler installed every hook is a no-op, so
// the instrumented copy behaves like the original.
//
// Tasks are real goroutines, but exactly one runs at a time: at every yield point the
// running task asks the controller (the harness goroutine, which owns the choice tape)
// whether to continue or to hand the baton to another task. The hand-off itself happens
// inside raceOff()/raceOn() (runtime.RaceDisable / RaceEnable under -race), which makes
// the race detector ignore the *synchronisation* the hand-off would otherwise contribute,
// so that unsynchronised accesses of two tasks to library state are still reported.
package verifsim

import (
	"reflect"
	"runtime"
	"sync/atomic"
	"time"
)

// Request is what a task sends to the controller.
type Request struct {
	Task    int
	Site    int
	Blocked bool // the task could not take a lock and must not be chosen until others ran
	Done    bool
	// tasks SpawnFrom..SpawnTo-1 were created by go statements of the library since the last request
	SpawnFrom, SpawnTo int
}

// Every task record is allocated by the controller in Start (so id and wake are written before
// any task goroutine exists); whatever tasks write later is atomic. With synchronisation events
// switched off nothing else would be ordered for the race detector.
type task struct {
	id     int
	wake   chan struct{}
	goid   atomic.Int64 // goroutine running this task (set by TaskMain / GoWrap)
	parent atomic.Int64 // task whose go statement created this one (-1: a task of the workload)
	state  atomic.Int32 // 0 runnable, 1 reported itself blocked, 2 finished
}

const spareTasks = 96 // records available for goroutines the library starts

var (
	nTasks    atomic.Int64 // records in use
	reportedN atomic.Int64 // records the controller has been told about
)

var goParent atomic.Int64 // task executing the go statement between BeforeGo and AfterGo

// RootOf returns the workload task on whose behalf task id runs (id itself for workload tasks).
func RootOf(id int) int {
	raceOff()
	defer raceOn()
	ts := *tasks.Load()
	for id >= 0 && id < len(ts) && ts[id].parent.Load() >= 0 {
		id = int(ts[id].parent.Load())
	}
	return id
}

// FamilyConcurrent reports whether another task of the same family (same root) could run
// right now, i.e. whether the order of this task's actions relative to that task's is a
// scheduling accident rather than something the library synchronises.
func FamilyConcurrent(id int) bool {
	raceOff()
	defer raceOn()
	ts := (*tasks.Load())[:nTasks.Load()]
	root := func(i int) int {
		for i >= 0 && i < len(ts) && ts[i].parent.Load() >= 0 {
			i = int(ts[i].parent.Load())
		}
		return i
	}
	r := root(id)
	for _, t := range ts {
		if t.id != id && root(t.id) == r && t.state.Load() == 0 {
			return true
		}
	}
	return false
}

// goid returns the id of the calling goroutine (parsed from the first line of its stack
// header, "goroutine N [running]:"). Hooks use it to recognise goroutines the library itself
// started: those are not tasks, run freely and never talk to the controller.
func goid() int64 {
	var buf [40]byte
	n := runtime.Stack(buf[:], false)
	var id int64
	for i := len("goroutine "); i < n && buf[i] >= '0' && buf[i] <= '9'; i++ {
		id = id*10 + int64(buf[i]-'0')
	}
	return id
}

// scheduledHere reports the id of the running task if the caller is that task's goroutine.
// Must be called with synchronisation events off.
func scheduledHere() (int, bool) {
	if !active.Load() {
		return -1, false
	}
	id := current.Load()
	if id < 0 {
		return -1, false
	}
	ts := *tasks.Load()
	if int(id) >= len(ts) || ts[id].goid.Load() != goid() {
		return -1, false
	}
	return int(id), true
}

var (
	spawnSeq     atomic.Int64 // number of GoWrap registrations
	goBefore     atomic.Int64 // spawnSeq as seen by BeforeGo of the running task
	generation   atomic.Int64 // incremented by Start: parked tasks of an earlier scheduler never join a later one

	active  atomic.Bool
	current atomic.Int64 // id of the running task, -1 = none (controller or solo execution)
	atomicN atomic.Int64 // >0: the running task is inside a section that must not be preempted
	reqCh   chan Request
	tasks   atomic.Pointer[[]*task]
)

func init() { current.Store(-1) }

// Current returns the id of the running task (-1 outside scheduled execution). Like every
// hook it touches scheduler state only with synchronisation events switched off, so that
// the scheduler contributes no happens-before edge between tasks.
func Current() int {
	raceOff()
	id := int(current.Load())
	raceOn()
	return id
}

// OnTask reports whether the caller is the goroutine of the task that currently holds the
// baton (false for goroutines the library started itself, and outside scheduled execution).
func OnTask() (int, bool) {
	raceOff()
	id, ok := scheduledHere()
	raceOn()
	return id, ok
}

// Active reports whether a scheduler is installed.
func Active() bool {
	raceOff()
	a := active.Load()
	raceOn()
	return a
}

// RaceOff / RaceOn let the harness touch its own bookkeeping without contributing
// synchronisation between tasks.
func RaceOff() { raceOff() }
func RaceOn()  { raceOn() }

// Yield is called before every statement of the instrumented library.
func Yield(site int) {
	raceOff()
	if active.Load() && atomicN.Load() == 0 {
		if id, ok := scheduledHere(); ok {
			handoffLocked(Request{Task: id, Site: site})
		}
	}
	raceOn()
}

// Acquire replaces a blocking Lock()/RLock(): it spins through the scheduler instead of
// blocking the OS thread, so the controller stays in charge of who runs.
func Acquire(site int, try func() bool) {
	raceOff()
	id, scheduled := scheduledHere()
	raceOn()
	if !scheduled {
		for !try() {
			// not under the scheduler: behave like a blocking lock
			yieldThread()
		}
		return
	}
	poll(site, try) // the real TryLock keeps its real synchronisation semantics
	_ = id
}

// poll is the common shape of every modelled blocking primitive: try() performs the real,
// non-blocking form of the operation (with its real synchronisation semantics); while it
// cannot proceed the task reports itself blocked and others run.
func poll(site int, try func() bool) {
	raceOff()
	id, scheduled := scheduledHere()
	raceOn()
	if !scheduled {
		for !try() {
			time.Sleep(50 * time.Microsecond)
		}
		return
	}
	Yield(site)
	for !try() {
		raceOff()
		if cur, still := scheduledHere(); still && cur == id {
			handoffLocked(Request{Task: id, Site: site, Blocked: true})
			raceOn()
			continue
		}
		raceOn()
		time.Sleep(50 * time.Microsecond) // the scheduler is gone: behave like the blocking operation
	}
}

// ---- channel operations, select, Wait -------------------------------------------------------
//
// A task that cannot complete a channel operation gives the baton back (reporting itself
// blocked) but stays really blocked in that very operation, so that a rendezvous with the task
// that runs later is a real one (an unbuffered send meets a real, waiting receiver). When the
// operation completes while the task is parked, the task waits for the baton before it goes on.

// giveUpBaton reports the running task as blocked without waiting to be woken. Called with
// synchronisation events off. Returns the channel on which the baton comes back.
func giveUpBaton(id, site int) chan struct{} {
	me := (*tasks.Load())[id]
	me.state.Store(1)
	r := Request{Task: id, Site: site, Blocked: true}
	r.SpawnFrom, r.SpawnTo = drainSpawned()
	reqCh <- r
	return me.wake
}

func takeBaton(id int, wake chan struct{}, wait bool) {
	raceOff()
	if wait {
		<-wake
	}
	(*tasks.Load())[id].state.Store(0)
	raceOn()
}

func here() (int, bool) {
	raceOff()
	id, ok := scheduledHere()
	raceOn()
	return id, ok
}

// Recv1 replaces the expression <-ch.
func Recv1[T any](site int, ch <-chan T) T {
	v, _ := Recv2(site, ch)
	return v
}

// Recv2 replaces v, ok := <-ch.
func Recv2[T any](site int, ch <-chan T) (v T, ok bool) {
	if _, sched := here(); !sched {
		v, ok = <-ch
		return
	}
	Yield(site)
	for {
		select {
		case v, ok = <-ch:
			return
		default:
		}
		id, sched := here()
		if !sched {
			v, ok = <-ch
			return
		}
		raceOff()
		wake := giveUpBaton(id, site)
		raceOn()
		select {
		case v, ok = <-ch:
			takeBaton(id, wake, true)
			return
		case <-wake:
			takeBaton(id, wake, false)
		}
	}
}

// Send replaces ch <- v.
func Send[T any](site int, ch chan<- T, v T) {
	if _, sched := here(); !sched {
		ch <- v
		return
	}
	Yield(site)
	for {
		select {
		case ch <- v:
			return
		default:
		}
		id, sched := here()
		if !sched {
			ch <- v
			return
		}
		raceOff()
		wake := giveUpBaton(id, site)
		raceOn()
		select {
		case ch <- v:
			takeBaton(id, wake, true)
			return
		case <-wake:
			takeBaton(id, wake, false)
		}
	}
}

// parkedIn is the select statement (site) in which the task gave the baton away, 0 if none.
// Only the task itself reads and writes its entry.
var parkedIn [1024]atomic.Int64

// SelWait is the extra communication clause of an instrumented select statement without
// default:  case <-verifsim.SelWait(site): goto L.  The task gives the baton away and then
// really blocks in the select; the clause fires when the controller hands the baton back
// although no other clause was ready (the select is then entered again).
func SelWait(site int) <-chan struct{} {
	id, sched := here()
	if !sched {
		return nil // never ready: the select behaves as written
	}
	raceOff()
	wake := giveUpBaton(id, site)
	parkedIn[id%len(parkedIn)].Store(int64(site))
	raceOn()
	return wake
}

// AwaitBaton is the first statement of every clause of an instrumented select: if the clause
// fired while the task was parked, the task waits for the baton before running the clause body.
func AwaitBaton() {
	raceOff()
	if active.Load() {
		g := goid()
		ts := (*tasks.Load())[:nTasks.Load()]
		for _, t := range ts {
			if t.goid.Load() == g {
				if parkedIn[t.id%len(parkedIn)].Swap(0) != 0 {
					<-t.wake
					t.state.Store(0)
				}
				break
			}
		}
	}
	raceOn()
}

// SelWoken is called by the extra clause itself (the baton came back, nothing else was ready).
func SelWoken() {
	raceOff()
	if id, ok := scheduledHere(); ok {
		parkedIn[id%len(parkedIn)].Store(0)
		(*tasks.Load())[id].state.Store(0)
	}
	raceOn()
}

// WaitFunc replaces a statement x.Wait() (WaitGroup, Cond, ...): the real wait runs in a helper
// goroutine; the task waits for the helper like for a channel.
func WaitFunc(site int, wait func()) {
	if _, sched := here(); !sched {
		wait()
		return
	}
	done := make(chan struct{})
	go func() {
		wait()
		close(done)
	}()
	Recv2(site, (<-chan struct{})(done))
}

// EnterAtomic/ExitAtomic bracket calls that must not be preempted (sync.Once-shaped).
func EnterAtomic() { raceOff(); atomicN.Add(1); raceOn() }
func ExitAtomic()  { raceOff(); atomicN.Add(-1); raceOn() }

// handoffLocked must be called with synchronisation events off.
func handoffLocked(r Request) {
	ts := *tasks.Load()
	me := ts[r.Task]
	r.SpawnFrom, r.SpawnTo = drainSpawned()
	if r.Blocked {
		me.state.Store(1)
	}
	reqCh <- r
	<-me.wake
	me.state.Store(0)
}

func drainSpawned() (from, to int) {
	n := nTasks.Load()
	return int(reportedN.Swap(n)), int(n)
}

// ---- goroutines started by the library ------------------------------------------------------
//
// "go f(a, b)" is instrumented as
//
//	verifsim.BeforeGo(); go verifsim.GoWrap(site, verifsim.Bind(f, a, b)); verifsim.AfterGo()
//
// Function value and arguments are still evaluated by the parent at the go statement. The new
// goroutine registers itself as a task and parks until the controller runs it; the parent waits
// (in real time, briefly) for that registration, so the controller learns about the new task
// with the parent's next request: deterministic.

// Bind evaluates nothing itself: it packages an already evaluated call.
func Bind(f any, args ...any) func() {
	if g, ok := f.(func()); ok && len(args) == 0 {
		return g
	}
	fv := reflect.ValueOf(f)
	in := make([]reflect.Value, len(args))
	for i, a := range args {
		if a == nil {
			in[i] = reflect.Zero(fv.Type().In(min(i, fv.Type().NumIn()-1)))
		} else {
			in[i] = reflect.ValueOf(a)
		}
	}
	return func() { fv.Call(in) }
}

// BindSlice is Bind for a call whose last argument is spread (f(a, xs...)).
func BindSlice(f any, args ...any) func() {
	fv := reflect.ValueOf(f)
	in := make([]reflect.Value, len(args))
	for i, a := range args {
		in[i] = reflect.ValueOf(a)
	}
	return func() { fv.CallSlice(in) }
}

func BeforeGo() {
	raceOff()
	goBefore.Store(spawnSeq.Load())
	goParent.Store(current.Load())
	raceOn()
}

func AfterGo() {
	raceOff()
	if _, ok := scheduledHere(); ok {
		deadline := time.Now().Add(2 * time.Second)
		for spawnSeq.Load() == goBefore.Load() && time.Now().Before(deadline) {
			runtime.Gosched()
			time.Sleep(20 * time.Microsecond)
		}
	}
	raceOn()
}

// GoWrap runs in the new goroutine.
func GoWrap(site int, fn func()) {
	raceOff()
	if !active.Load() || current.Load() < 0 {
		// started outside scheduled execution: an ordinary goroutine
		raceOn()
		fn()
		return
	}
	gen := generation.Load()
	// claim one of the spare records (only atomics are written)
	ts := *tasks.Load()
	id := int(nTasks.Add(1)) - 1
	if id >= len(ts) {
		// out of records: an ordinary, unscheduled goroutine
		nTasks.Add(-1)
		spawnSeq.Add(1)
		raceOn()
		fn()
		return
	}
	t := ts[id]
	t.parent.Store(goParent.Load())
	t.state.Store(0)
	t.goid.Store(goid())
	spawnSeq.Add(1)
	<-t.wake // parked until the controller runs this task (or the scheduler is removed)
	raceOn()
	fn()
	raceOff()
	t.state.Store(2)
	if active.Load() && generation.Load() == gen {
		if cur, ok := scheduledHere(); ok && cur == t.id {
			f, to := drainSpawned()
			reqCh <- Request{Task: t.id, Done: true, SpawnFrom: f, SpawnTo: to}
		}
	}
	raceOn()
}

// ---- controller side (called by the harness goroutine only) -----------------------------

// Start installs a scheduler for n tasks and returns the request channel.
func Start(n int) chan Request {
	ts := make([]*task, n+spareTasks)
	for i := range ts {
		ts[i] = &task{id: i, wake: make(chan struct{}, 1)}
		ts[i].parent.Store(-1)
	}
	tasks.Store(&ts)
	nTasks.Store(int64(n))
	reportedN.Store(int64(n))
	reqCh = make(chan Request)
	atomicN.Store(0)
	current.Store(-1)
	generation.Add(1)
	active.Store(true)
	return reqCh
}

// Stop removes the scheduler. Tasks that are still parked (goroutines the library started and
// left waiting, e.g. a worker on its channel) are released and continue as ordinary goroutines.
func Stop() {
	active.Store(false)
	current.Store(-1)
	for _, t := range (*tasks.Load())[:nTasks.Load()] {
		select {
		case t.wake <- struct{}{}:
		default:
		}
	}
}

// NumTasks returns the number of tasks known to the scheduler (initial + spawned).
func NumTasks() int { return int(nTasks.Load()) }

// Run lets task id run until its next request, which is returned.
func Run(id int) Request {
	ts := *tasks.Load()
	current.Store(int64(id))
	ts[id].wake <- struct{}{}
	r := <-reqCh
	current.Store(-1)
	return r
}

// TaskMain wraps the body of task id: it waits for its first turn and announces the end.
func TaskMain(id int, body func()) {
	raceOff()
	ts := *tasks.Load()
	ts[id].goid.Store(goid())
	<-ts[id].wake
	raceOn()
	body()
	raceOff()
	ts[id].state.Store(2)
	f, to := drainSpawned()
	reqCh <- Request{Task: id, Done: true, SpawnFrom: f, SpawnTo: to}
	raceOn()
}
