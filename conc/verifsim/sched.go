// Package verifsim is dropped into the instrumented scratch copy of gosaml2 by the
// controlled-concurrency engine. With no scheduler installed every hook is a no-op, so
// the instrumented copy behaves like the original.
//
// Tasks are real goroutines, but exactly one runs at a time: at every yield point the
// running task asks the controller (the harness goroutine, which owns the choice tape)
// whether to continue or to hand the baton to another task. The hand-off itself happens
// inside raceOff()/raceOn() (runtime.RaceDisable / RaceEnable under -race), which makes
// the race detector ignore the *synchronisation* the hand-off would otherwise contribute,
// so that unsynchronised accesses of two tasks to library state are still reported.
package verifsim

import (
	"sync/atomic"
)

// Request is what a task sends to the controller.
type Request struct {
	Task    int
	Site    int
	Blocked bool // the task could not take a lock and must not be chosen until others ran
	Done    bool
}

type task struct {
	id   int
	wake chan struct{}
}

var (
	active  atomic.Bool
	current atomic.Int64 // id of the running task, -1 = none (controller or solo execution)
	atomicN atomic.Int64 // >0: the running task is inside a section that must not be preempted
	reqCh   chan Request
	tasks   atomic.Pointer[[]*task]
)

func init() { current.Store(-1) }

// Current returns the id of the running task (-1 outside scheduled execution). Like every
// hook it touches scheduler state only with synchronisation events switched off, so that
// the scheduler contributes no happens-before edge between tasks.
func Current() int {
	raceOff()
	id := int(current.Load())
	raceOn()
	return id
}

// Yield is called before every statement of the instrumented library.
func Yield(site int) {
	raceOff()
	if active.Load() && atomicN.Load() == 0 {
		if id := current.Load(); id >= 0 {
			handoffLocked(Request{Task: int(id), Site: site})
		}
	}
	raceOn()
}

// Acquire replaces a blocking Lock()/RLock(): it spins through the scheduler instead of
// blocking the OS thread, so the controller stays in charge of who runs.
func Acquire(site int, try func() bool) {
	raceOff()
	scheduled := active.Load() && current.Load() >= 0
	raceOn()
	if !scheduled {
		for !try() {
			// not under the scheduler: behave like a blocking lock
			yieldThread()
		}
		return
	}
	Yield(site) // forced decision point right before the acquisition
	for !try() { // the real TryLock keeps its real synchronisation semantics
		raceOff()
		handoffLocked(Request{Task: int(current.Load()), Site: site, Blocked: true})
		raceOn()
	}
}

// EnterAtomic/ExitAtomic bracket calls that must not be preempted (sync.Once-shaped).
func EnterAtomic() { raceOff(); atomicN.Add(1); raceOn() }
func ExitAtomic()  { raceOff(); atomicN.Add(-1); raceOn() }

// handoffLocked must be called with synchronisation events off.
func handoffLocked(r Request) {
	ts := *tasks.Load()
	me := ts[r.Task]
	reqCh <- r
	<-me.wake
}

// ---- controller side (called by the harness goroutine only) -----------------------------

// Start installs a scheduler for n tasks and returns the request channel.
func Start(n int) chan Request {
	ts := make([]*task, n)
	for i := range ts {
		ts[i] = &task{id: i, wake: make(chan struct{}, 1)}
	}
	tasks.Store(&ts)
	reqCh = make(chan Request)
	atomicN.Store(0)
	current.Store(-1)
	active.Store(true)
	return reqCh
}

// Stop removes the scheduler.
func Stop() {
	active.Store(false)
	current.Store(-1)
}

// Run lets task id run until its next request, which is returned.
func Run(id int) Request {
	ts := *tasks.Load()
	current.Store(int64(id))
	ts[id].wake <- struct{}{}
	r := <-reqCh
	current.Store(-1)
	return r
}

// TaskMain wraps the body of task id: it waits for its first turn and announces the end.
func TaskMain(id int, body func()) {
	raceOff()
	ts := *tasks.Load()
	<-ts[id].wake
	raceOn()
	body()
	raceOff()
	reqCh <- Request{Task: id, Done: true}
	raceOn()
}
