module instr

go 1.21
