// Command instr instruments a scratch copy of the gosaml2 source tree for the
// controlled-concurrency engine: it inserts verifsim.Yield(site) before every statement
// of every block / case body and turns x.Lock() / x.RLock() statements into
// verifsim.Acquire(site, x.TryLock) / (x.TryRLock), by text insertion at AST offsets
// (so the remaining source text, and its line numbers, stay as they are).
//
//	instr <dir> [<dir>...]      instruments every non-test .go file directly in each dir
//	                            and writes <first dir>/verifsim_sites.json
package main

import (
	"encoding/json"
	"fmt"
	"go/ast"
	"go/parser"
	"go/token"
	"os"
	"path/filepath"
	"sort"
	"strings"
)

type edit struct {
	off  int
	end  int // replace [off,end) ; end==off => insertion
	text string
}

type site struct {
	ID   int    `json:"id"`
	File string `json:"file"`
	Line int    `json:"line"`
	Kind string `json:"kind"`
}

const importPath = "github.com/russellhaering/gosaml2/verifsim"

var sites []site

func newSite(fset *token.FileSet, pos token.Pos, kind, rel string) int {
	p := fset.Position(pos)
	id := len(sites) + 1
	sites = append(sites, site{ID: id, File: rel, Line: p.Line, Kind: kind})
	return id
}

func instrumentFile(path, rel string) error {
	src, err := os.ReadFile(path)
	if err != nil {
		return err
	}
	fset := token.NewFileSet()
	f, err := parser.ParseFile(fset, path, src, parser.ParseComments)
	if err != nil {
		return err
	}
	var edits []edit
	off := func(p token.Pos) int { return fset.Position(p).Offset }
	lockCall := func(s ast.Stmt) (recv string, method string, ok bool) {
		es, isExpr := s.(*ast.ExprStmt)
		if !isExpr {
			return
		}
		call, isCall := es.X.(*ast.CallExpr)
		if !isCall || len(call.Args) != 0 {
			return
		}
		sel, isSel := call.Fun.(*ast.SelectorExpr)
		if !isSel {
			return
		}
		if sel.Sel.Name != "Lock" && sel.Sel.Name != "RLock" {
			return
		}
		return string(src[off(sel.X.Pos()):off(sel.X.End())]), sel.Sel.Name, true
	}
	onceCall := func(s ast.Stmt) bool {
		es, isExpr := s.(*ast.ExprStmt)
		if !isExpr {
			return false
		}
		call, isCall := es.X.(*ast.CallExpr)
		if !isCall || len(call.Args) != 1 {
			return false
		}
		sel, isSel := call.Fun.(*ast.SelectorExpr)
		return isSel && sel.Sel.Name == "Do"
	}
	doList := func(list []ast.Stmt) {
		for _, s := range list {
			if _, isLabeled := s.(*ast.LabeledStmt); isLabeled {
				continue
			}
			if recv, method, ok := lockCall(s); ok {
				id := newSite(fset, s.Pos(), "acquire:"+method, rel)
				try := "TryLock"
				if method == "RLock" {
					try = "TryRLock"
				}
				edits = append(edits, edit{off(s.Pos()), off(s.End()), fmt.Sprintf("verifsim.Acquire(%d, %s.%s)", id, recv, try)})
				continue
			}
			if onceCall(s) {
				id := newSite(fset, s.Pos(), "atomic-call", rel)
				edits = append(edits, edit{off(s.Pos()), off(s.Pos()), fmt.Sprintf("verifsim.Yield(%d); verifsim.EnterAtomic(); ", id)})
				edits = append(edits, edit{off(s.End()), off(s.End()), "; verifsim.ExitAtomic()"})
				continue
			}
			id := newSite(fset, s.Pos(), "stmt", rel)
			edits = append(edits, edit{off(s.Pos()), off(s.Pos()), fmt.Sprintf("verifsim.Yield(%d); ", id)})
		}
	}
	skip := map[*ast.BlockStmt]bool{}
	ast.Inspect(f, func(n ast.Node) bool {
		switch x := n.(type) {
		case *ast.SwitchStmt:
			skip[x.Body] = true
		case *ast.TypeSwitchStmt:
			skip[x.Body] = true
		case *ast.SelectStmt:
			skip[x.Body] = true
		case *ast.BlockStmt:
			if skip[x] {
				return true
			}
			doList(x.List)
		case *ast.CaseClause:
			doList(x.Body)
		case *ast.CommClause:
			doList(x.Body)
		}
		return true
	})
	if len(edits) == 0 {
		return nil
	}
	// import on the package clause line keeps every line number intact
	pkgEnd := off(f.Name.End())
	edits = append(edits, edit{pkgEnd, pkgEnd, `; import verifsim "` + importPath + `"`})
	sort.SliceStable(edits, func(i, j int) bool {
		if edits[i].off != edits[j].off {
			return edits[i].off > edits[j].off
		}
		return edits[i].end > edits[j].end
	})
	out := src
	for _, e := range edits {
		out = append(append(append([]byte{}, out[:e.off]...), []byte(e.text)...), out[e.end:]...)
	}
	return os.WriteFile(path, out, 0o644)
}

func main() {
	if len(os.Args) < 2 {
		fmt.Fprintln(os.Stderr, "usage: instr <dir>...")
		os.Exit(2)
	}
	root := os.Args[1]
	for _, dir := range os.Args[1:] {
		ents, err := os.ReadDir(dir)
		if err != nil {
			fmt.Fprintln(os.Stderr, err)
			os.Exit(2)
		}
		for _, e := range ents {
			n := e.Name()
			if e.IsDir() || !strings.HasSuffix(n, ".go") || strings.HasSuffix(n, "_test.go") || n == "test_constants.go" {
				continue
			}
			rel, _ := filepath.Rel(root, filepath.Join(dir, n))
			if err := instrumentFile(filepath.Join(dir, n), rel); err != nil {
				fmt.Fprintln(os.Stderr, "instrument", n, err)
				os.Exit(2)
			}
		}
	}
	b, _ := json.Marshal(sites)
	if err := os.WriteFile(filepath.Join(root, "verifsim_sites.json"), b, 0o644); err != nil {
		fmt.Fprintln(os.Stderr, err)
		os.Exit(2)
	}
	fmt.Printf("instrumented %d sites\n", len(sites))
}
