// Command instr instruments a scratch copy of the gosaml2 source tree for the
// controlled-concurrency engine: it inserts verifsim.Yield(site) before every statement
// of every block / case body and turns x.Lock() / x.RLock() statements into
// verifsim.Acquire(site, x.TryLock) / (x.TryRLock), by text insertion at AST offsets
// (so the remaining source text, and its line numbers, stay as they are).
//
//	instr <dir> [<dir>...]      instruments every non-test .go file directly in each dir
//	                            and writes <first dir>/verifsim_sites.json
package main

import (
	"encoding/json"
	"fmt"
	"go/ast"
	"go/parser"
	"go/token"
	"os"
	"path/filepath"
	"sort"
	"strings"
)

type edit struct {
	off  int
	end  int // replace [off,end) ; end==off => insertion
	text string
}

type site struct {
	ID   int    `json:"id"`
	File string `json:"file"`
	Line int    `json:"line"`
	Kind string `json:"kind"`
}

const importPath = "github.com/russellhaering/gosaml2/verifsim"

var sites []site

func newSite(fset *token.FileSet, pos token.Pos, kind, rel string) int {
	p := fset.Position(pos)
	id := len(sites) + 1
	sites = append(sites, site{ID: id, File: rel, Line: p.Line, Kind: kind})
	return id
}

func instrumentFile(path, rel string) error {
	src, err := os.ReadFile(path)
	if err != nil {
		return err
	}
	fset := token.NewFileSet()
	f, err := parser.ParseFile(fset, path, src, parser.ParseComments)
	if err != nil {
		return err
	}
	var edits []edit
	off := func(p token.Pos) int { return fset.Position(p).Offset }
	lockCall := func(s ast.Stmt) (recv string, method string, ok bool) {
		es, isExpr := s.(*ast.ExprStmt)
		if !isExpr {
			return
		}
		call, isCall := es.X.(*ast.CallExpr)
		if !isCall || len(call.Args) != 0 {
			return
		}
		sel, isSel := call.Fun.(*ast.SelectorExpr)
		if !isSel {
			return
		}
		if sel.Sel.Name != "Lock" && sel.Sel.Name != "RLock" {
			return
		}
		return string(src[off(sel.X.Pos()):off(sel.X.End())]), sel.Sel.Name, true
	}
	onceCall := func(s ast.Stmt) bool {
		es, isExpr := s.(*ast.ExprStmt)
		if !isExpr {
			return false
		}
		call, isCall := es.X.(*ast.CallExpr)
		if !isCall || len(call.Args) != 1 {
			return false
		}
		sel, isSel := call.Fun.(*ast.SelectorExpr)
		return isSel && sel.Sel.Name == "Do"
	}
	waitCall := func(s ast.Stmt) bool {
		es, isExpr := s.(*ast.ExprStmt)
		if !isExpr {
			return false
		}
		call, isCall := es.X.(*ast.CallExpr)
		if !isCall || len(call.Args) != 0 {
			return false
		}
		sel, isSel := call.Fun.(*ast.SelectorExpr)
		return isSel && sel.Sel.Name == "Wait"
	}
	doList := func(list []ast.Stmt) {
		for _, s := range list {
			if _, isLabeled := s.(*ast.LabeledStmt); isLabeled {
				continue
			}
			if g, isGo := s.(*ast.GoStmt); isGo {
				// go f(a, b)  =>  BeforeGo(); go GoWrap(site, Bind(f, a, b)); AfterGo()
				id := newSite(fset, s.Pos(), "go", rel)
				call := g.Call
				bind := "Bind"
				if call.Ellipsis.IsValid() {
					bind = "BindSlice"
					edits = append(edits, edit{off(call.Ellipsis), off(call.Ellipsis) + 3, ""})
				}
				edits = append(edits, edit{off(s.Pos()), off(s.Pos()), fmt.Sprintf("verifsim.Yield(%d); verifsim.BeforeGo(); ", id)})
				edits = append(edits, edit{off(call.Fun.Pos()), off(call.Fun.Pos()), fmt.Sprintf("verifsim.GoWrap(%d, verifsim.%s(", id, bind)})
				sep := ", "
				if len(call.Args) == 0 {
					sep = ""
				}
				edits = append(edits, edit{off(call.Lparen), off(call.Lparen) + 1, sep})
				edits = append(edits, edit{off(call.Rparen), off(call.Rparen) + 1, "))"})
				edits = append(edits, edit{off(s.End()), off(s.End()), "; verifsim.AfterGo()"})
				continue
			}
			if waitCall(s) {
				// x.Wait() (WaitGroup, Cond, ...): the real wait runs in a helper goroutine, the task polls
				id := newSite(fset, s.Pos(), "wait", rel)
				edits = append(edits, edit{off(s.Pos()), off(s.Pos()), fmt.Sprintf("verifsim.WaitFunc(%d, func() { ", id)})
				edits = append(edits, edit{off(s.End()), off(s.End()), " })"})
				continue
			}
			if recv, method, ok := lockCall(s); ok {
				id := newSite(fset, s.Pos(), "acquire:"+method, rel)
				try := "TryLock"
				if method == "RLock" {
					try = "TryRLock"
				}
				edits = append(edits, edit{off(s.Pos()), off(s.End()), fmt.Sprintf("verifsim.Acquire(%d, %s.%s)", id, recv, try)})
				continue
			}
			if onceCall(s) {
				id := newSite(fset, s.Pos(), "atomic-call", rel)
				edits = append(edits, edit{off(s.Pos()), off(s.Pos()), fmt.Sprintf("verifsim.Yield(%d); verifsim.EnterAtomic(); ", id)})
				edits = append(edits, edit{off(s.End()), off(s.End()), "; verifsim.ExitAtomic()"})
				continue
			}
			id := newSite(fset, s.Pos(), "stmt", rel)
			edits = append(edits, edit{off(s.Pos()), off(s.Pos()), fmt.Sprintf("verifsim.Yield(%d); ", id)})
		}
	}
	// channel operations outside select communication clauses become scheduler-aware calls
	inComm := map[ast.Node]bool{}
	twoValueRecv := map[*ast.UnaryExpr]bool{}
	labelOf := map[ast.Stmt]string{}
	// names that denote channels in this file (no type information is available: parameters, fields and
	// variables declared with a chan type or assigned from make(chan ...)); used to recognise "range ch"
	chanNames := map[string]bool{}
	isMakeChan := func(e ast.Expr) bool {
		c, ok := e.(*ast.CallExpr)
		if !ok || len(c.Args) == 0 {
			return false
		}
		id, ok := c.Fun.(*ast.Ident)
		if !ok || id.Name != "make" {
			return false
		}
		_, isChan := c.Args[0].(*ast.ChanType)
		return isChan
	}
	nameOf := func(e ast.Expr) string {
		switch x := e.(type) {
		case *ast.Ident:
			return x.Name
		case *ast.SelectorExpr:
			return x.Sel.Name
		}
		return ""
	}
	ast.Inspect(f, func(n ast.Node) bool {
		switch x := n.(type) {
		case *ast.Field:
			if _, ok := x.Type.(*ast.ChanType); ok {
				for _, nm := range x.Names {
					chanNames[nm.Name] = true
				}
			}
		case *ast.ValueSpec:
			_, typed := x.Type.(*ast.ChanType)
			for i, nm := range x.Names {
				if typed || (i < len(x.Values) && isMakeChan(x.Values[i])) {
					chanNames[nm.Name] = true
				}
			}
		case *ast.AssignStmt:
			for i, r := range x.Rhs {
				if i < len(x.Lhs) && isMakeChan(r) {
					if nm := nameOf(x.Lhs[i]); nm != "" {
						chanNames[nm] = true
					}
				}
			}
		}
		return true
	})
	ast.Inspect(f, func(n ast.Node) bool {
		switch x := n.(type) {
		case *ast.CommClause:
			if x.Comm != nil {
				ast.Inspect(x.Comm, func(m ast.Node) bool {
					if m != nil {
						inComm[m] = true
					}
					return true
				})
			}
		case *ast.LabeledStmt:
			labelOf[x.Stmt] = x.Label.Name
		case *ast.AssignStmt:
			if len(x.Lhs) == 2 && len(x.Rhs) == 1 {
				if u, ok := x.Rhs[0].(*ast.UnaryExpr); ok && u.Op == token.ARROW {
					twoValueRecv[u] = true
				}
			}
		case *ast.ValueSpec:
			if len(x.Names) == 2 && len(x.Values) == 1 {
				if u, ok := x.Values[0].(*ast.UnaryExpr); ok && u.Op == token.ARROW {
					twoValueRecv[u] = true
				}
			}
		}
		return true
	})
	ast.Inspect(f, func(n ast.Node) bool {
		switch x := n.(type) {
		case *ast.UnaryExpr:
			if x.Op == token.ARROW && !inComm[x] {
				id := newSite(fset, x.Pos(), "recv", rel)
				fn := "Recv1"
				if twoValueRecv[x] {
					fn = "Recv2"
				}
				edits = append(edits, edit{off(x.OpPos), off(x.OpPos) + 2, fmt.Sprintf("verifsim.%s(%d, ", fn, id)})
				edits = append(edits, edit{off(x.X.End()), off(x.X.End()), ")"})
			}
		case *ast.RangeStmt:
			// for v := range ch { ... }  =>  for { v, ok := verifsim.Recv2(site, ch); if !ok { break }; ... }
			if nm := nameOf(x.X); nm != "" && chanNames[nm] && x.Value == nil {
				id := newSite(fset, x.Pos(), "range-chan", rel)
				chText := string(src[off(x.X.Pos()):off(x.X.End())])
				okVar := fmt.Sprintf("verifsimOk%d", id)
				var hdr string
				switch {
				case x.Key == nil:
					hdr = fmt.Sprintf("for { _, %s := verifsim.Recv2(%d, %s); if !%s { break }; ", okVar, id, chText, okVar)
				case x.Tok == token.DEFINE:
					k := string(src[off(x.Key.Pos()):off(x.Key.End())])
					hdr = fmt.Sprintf("for { %s, %s := verifsim.Recv2(%d, %s); if !%s { break }; _ = %s; ", k, okVar, id, chText, okVar, k)
				default:
					k := string(src[off(x.Key.Pos()):off(x.Key.End())])
					hdr = fmt.Sprintf("for { var %s bool; %s, %s = verifsim.Recv2(%d, %s); if !%s { break }; ", okVar, k, okVar, id, chText, okVar)
				}
				edits = append(edits, edit{off(x.For), off(x.Body.Lbrace) + 1, hdr})
			}
		case *ast.SendStmt:
			if !inComm[x] {
				id := newSite(fset, x.Pos(), "send", rel)
				edits = append(edits, edit{off(x.Chan.Pos()), off(x.Chan.Pos()), fmt.Sprintf("verifsim.Send(%d, ", id)})
				edits = append(edits, edit{off(x.Arrow), off(x.Arrow) + 2, ", "})
				edits = append(edits, edit{off(x.Value.End()), off(x.Value.End()), ")"})
			}
		case *ast.SelectStmt:
			hasDefault := false
			for _, c := range x.Body.List {
				if cc, ok := c.(*ast.CommClause); ok && cc.Comm == nil {
					hasDefault = true
				}
			}
			if !hasDefault {
				// L: select { case c: AwaitBaton(); body ... ; case <-verifsim.SelWait(site): SelWoken(); goto L }
				id := newSite(fset, x.Pos(), "select", rel)
				label := labelOf[x]
				if label == "" {
					label = fmt.Sprintf("verifsimSelect%d", id)
					edits = append(edits, edit{off(x.Pos()), off(x.Pos()), label + ": "})
				}
				for _, c := range x.Body.List {
					cc := c.(*ast.CommClause)
					edits = append(edits, edit{off(cc.Colon) + 1, off(cc.Colon) + 1, " verifsim.AwaitBaton();"})
				}
				lead := "; "
				if len(x.Body.List) == 0 {
					lead = ""
				}
				edits = append(edits, edit{off(x.Body.Rbrace), off(x.Body.Rbrace), fmt.Sprintf("%scase <-verifsim.SelWait(%d): verifsim.SelWoken(); goto %s; ", lead, id, label)})
			}
		}
		return true
	})
	skip := map[*ast.BlockStmt]bool{}
	ast.Inspect(f, func(n ast.Node) bool {
		switch x := n.(type) {
		case *ast.SwitchStmt:
			skip[x.Body] = true
		case *ast.TypeSwitchStmt:
			skip[x.Body] = true
		case *ast.SelectStmt:
			skip[x.Body] = true
		case *ast.BlockStmt:
			if skip[x] {
				return true
			}
			doList(x.List)
		case *ast.CaseClause:
			doList(x.Body)
		case *ast.CommClause:
			doList(x.Body)
		}
		return true
	})
	if len(edits) == 0 {
		return nil
	}
	// import on the package clause line keeps every line number intact
	pkgEnd := off(f.Name.End())
	edits = append(edits, edit{pkgEnd, pkgEnd, `; import verifsim "` + importPath + `"`})
	sort.SliceStable(edits, func(i, j int) bool {
		if edits[i].off != edits[j].off {
			return edits[i].off > edits[j].off
		}
		return edits[i].end > edits[j].end
	})
	out := src
	for _, e := range edits {
		out = append(append(append([]byte{}, out[:e.off]...), []byte(e.text)...), out[e.end:]...)
	}
	return os.WriteFile(path, out, 0o644)
}

func main() {
	if len(os.Args) < 2 {
		fmt.Fprintln(os.Stderr, "usage: instr <dir>...")
		os.Exit(2)
	}
	root := os.Args[1]
	for _, dir := range os.Args[1:] {
		ents, err := os.ReadDir(dir)
		if err != nil {
			fmt.Fprintln(os.Stderr, err)
			os.Exit(2)
		}
		for _, e := range ents {
			n := e.Name()
			if e.IsDir() || !strings.HasSuffix(n, ".go") || strings.HasSuffix(n, "_test.go") || n == "test_constants.go" {
				continue
			}
			rel, _ := filepath.Rel(root, filepath.Join(dir, n))
			if err := instrumentFile(filepath.Join(dir, n), rel); err != nil {
				fmt.Fprintln(os.Stderr, "instrument", n, err)
				os.Exit(2)
			}
		}
	}
	b, _ := json.Marshal(sites)
	if err := os.WriteFile(filepath.Join(root, "verifsim_sites.json"), b, 0o644); err != nil {
		fmt.Fprintln(os.Stderr, err)
		os.Exit(2)
	}
	fmt.Printf("instrumented %d sites\n", len(sites))
}
