#!/bin/bash
# build.sh <repo> <builddir> [warm] : instruments a scratch copy of <repo> and builds the
# controlled-concurrency engine binary <builddir>/conc with the race detector.
set -u
REPO="$1"; BUILD="$2"
HERE="$(cd "$(dirname "$0")" && pwd)"
export GOFLAGS=-mod=mod GOPROXY=off GOSUMDB=off GOTOOLCHAIN=local GOWORK=off CGO_ENABLED=1
GO=/root/go/pkg/mod/golang.org/toolchain@v0.0.1-go1.24.0.linux-amd64/bin/go
[ -x "$GO" ] || GO="$(command -v go1.24.0 || command -v go)"
SRC="$BUILD/src"
rm -rf "$SRC"; mkdir -p "$SRC" || exit 2
rsync -a --exclude .git --exclude '_seed' "$REPO"/ "$SRC"/ || exit 2
cp -r "$HERE/verifsim" "$SRC/verifsim" || exit 2
( cd "$HERE/instr" && "$GO" build -o "$BUILD/instr" . ) > "$BUILD/instr.log" 2>&1 || { echo "BUILD-ERROR (instrumenter)"; cat "$BUILD/instr.log"; exit 2; }
"$BUILD/instr" "$SRC" "$SRC/types" "$SRC/uuid" > "$BUILD/instr.out" 2>&1 || { echo "BUILD-ERROR (instrumentation of $REPO failed)"; cat "$BUILD/instr.out"; exit 2; }
sed "s#=> /repo#=> $SRC#" "$HERE/../sim/go.mod" > "$BUILD/conc.mod" || exit 2
cp "$HERE/../sim/go.sum" "$BUILD/conc.sum" || exit 2
( cd "$HERE/../sim" && "$GO" build -race -tags conc -modfile="$BUILD/conc.mod" -o "$BUILD/conc" ./cmd/fed ) > "$BUILD/conc.log" 2>&1 || {
  echo "BUILD-ERROR (conc engine or instrumented $REPO does not compile)"; tail -30 "$BUILD/conc.log"; exit 2; }
cp "$SRC/verifsim_sites.json" "$BUILD/sites.json"
exit 0
